(* C16 — Results depend only on the input set: deterministic, order-blind, no duplicates.
   Only statements, `exact` proofs and Print Assumptions live here. Models: the finished per-operation files; proofs:
   theories/Determinism.v, theories/DeterminismMore.v, theories/DC16.v.

   Reading guide.  Go randomises the iteration order of every map, per run and per map; it is the library's only source of
   nondeterminism.  The models carry every such order as an oracle `ord` with the single hypothesis `Permutation (ord l) l`;
   "for all runs" is "for all ord", "two runs" is "two oracles".  `same_members l l'` (the two lists have the same members) covers
   every permutation of the input list and every repetition of its entries.  `Permutation r r'` between two results says: the same
   IDs, each the same number of times; together with `NoDup`: the same set, no ID twice.
   What a model of immutable values cannot express (the caller's slices are left unmodified; genuinely repeated calls in one
   process; state kept between calls) is validated at run time by the entries of DC16.v, whose checker is proved sound below. *)
From Coq Require Import ZArith String List Bool Permutation.
From SID Require Import Base Str Ids Wire ZoomCore ChangeZoom Merge MergeProof MergeApi Neighbour Notation SetOps Overlap QuadkeyConv Line Corridor
  Tile Determinism DeterminismMore DeterminismTile DC16.
Import ListNotations.
Open Scope Z_scope.

(* ---- 1. the generic layer: every operation of the shape "expand each input with g, then de-duplicate through a Go map" ---- *)
(* F ord l = ord (first-occurrence dedupe (flat_map g l)) *)
Theorem C16_same_set_whatever_the_map_order :
  forall (I O : Type) (eqb : O -> O -> bool), (forall a b, reflect (a = b) (eqb a b)) -> forall (g : I -> list O) ord ord',
  (forall l, Permutation (ord l) l) -> (forall l, Permutation (ord' l) l) ->
  forall l, Permutation (F eqb g ord l) (F eqb g ord' l).
Proof. exact @F_same_set_whatever_the_map_order. Qed.
Print Assumptions C16_same_set_whatever_the_map_order.

Theorem C16_result_depends_on_the_input_set_only :
  forall (I O : Type) (eqb : O -> O -> bool), (forall a b, reflect (a = b) (eqb a b)) -> forall (g : I -> list O) ord ord',
  (forall l, Permutation (ord l) l) -> (forall l, Permutation (ord' l) l) ->
  forall l l', same_members l l' -> Permutation (F eqb g ord l) (F eqb g ord' l').
Proof. exact @F_input_set_only. Qed.
Print Assumptions C16_result_depends_on_the_input_set_only.

Theorem C16_permuted_input :
  forall (I O : Type) (eqb : O -> O -> bool), (forall a b, reflect (a = b) (eqb a b)) -> forall (g : I -> list O) ord ord',
  (forall l, Permutation (ord l) l) -> (forall l, Permutation (ord' l) l) ->
  forall l l', Permutation l l' -> Permutation (F eqb g ord l) (F eqb g ord' l').
Proof. exact @F_permuted_input. Qed.
Print Assumptions C16_permuted_input.

Theorem C16_list_appended_to_itself :
  forall (I O : Type) (eqb : O -> O -> bool), (forall a b, reflect (a = b) (eqb a b)) -> forall (g : I -> list O) ord ord',
  (forall l, Permutation (ord l) l) -> (forall l, Permutation (ord' l) l) ->
  forall l, Permutation (F eqb g ord (l ++ l)) (F eqb g ord' l).
Proof. exact @F_appended_twice. Qed.
Print Assumptions C16_list_appended_to_itself.

Theorem C16_entries_repeated_in_place :
  forall (I O : Type) (eqb : O -> O -> bool), (forall a b, reflect (a = b) (eqb a b)) -> forall (g : I -> list O) ord ord',
  (forall l, Permutation (ord l) l) -> (forall l, Permutation (ord' l) l) ->
  (forall l, Permutation (F eqb g ord (stutter l)) (F eqb g ord' l)) /\
  (forall l1 l2 a k, Permutation (F eqb g ord (l1 ++ repeat a (Datatypes.S k) ++ l2)) (F eqb g ord' (l1 ++ a :: l2))).
Proof. intros I O eqb S g ord ord' P P'. split; [exact (F_repeated_in_place eqb S g ord ord' P P')|exact (F_one_entry_repeated eqb S g ord ord' P P')]. Qed.
Print Assumptions C16_entries_repeated_in_place.

Theorem C16_no_ID_twice :
  forall (I O : Type) (eqb : O -> O -> bool), (forall a b, reflect (a = b) (eqb a b)) -> forall (g : I -> list O) ord,
  (forall l, Permutation (ord l) l) -> forall l, NoDup (F eqb g ord l).
Proof. exact @F_NoDup. Qed.
Print Assumptions C16_no_ID_twice.

(* the same for any two de-duplicating functions whatsoever (any algorithm, any order) *)
Theorem C16_any_two_deduplications_agree :
  forall (O : Type) (dd dd' : list O -> list O) l l', dedupe_spec dd -> dedupe_spec dd' -> same_members l l' -> Permutation (dd l) (dd' l').
Proof. exact @dedupe_set_only. Qed.
Print Assumptions C16_any_two_deduplications_agree.

(* ---- 2. zoom change ---- *)
Theorem C16_zoom_change :
  forall ord ord', (forall l, Permutation (ord l) l) -> (forall l, Permutation (ord' l) l) ->
  forall ids ids' H V, same_members ids ids' ->
  Permutation (ord (change_eids ids H V)) (ord' (change_eids ids' H V)) /\ NoDup (ord (change_eids ids H V)).
Proof. intros ord ord' P P' ids ids' H V E. split; [exact (change_deterministic ord ord' P P' ids ids' H V E)|exact (change_no_duplicates ord P ids H V)]. Qed.
Print Assumptions C16_zoom_change.

Theorem C16_ChangeExtendedSpatialIdsZoom_on_valid_ids :
  forall ids ids' H V, (forall i, In i ids -> valid i) -> 0 <= H <= 35 -> 0 <= V <= 35 -> same_members ids ids' ->
  exists r r', change_ext_api (map print_eid ids) H V = Ok r /\ change_ext_api (map print_eid ids') H V = Ok r' /\
               Permutation r r' /\ NoDup r.
Proof. exact change_ext_api_deterministic. Qed.
Print Assumptions C16_ChangeExtendedSpatialIdsZoom_on_valid_ids.

Theorem C16_ChangeSpatialIdsZoom_on_valid_ids :
  forall ids ids' z, (forall i, In i ids -> valid i /\ ev i = eh i) -> 0 <= z <= 35 -> same_members ids ids' ->
  exists r r', change_sid_api (map ChangeZoom.print_sid ids) z = Ok r /\ change_sid_api (map ChangeZoom.print_sid ids') z = Ok r' /\
               Permutation r r' /\ NoDup r.
Proof. exact change_sid_api_deterministic. Qed.
Print Assumptions C16_ChangeSpatialIdsZoom_on_valid_ids.

(* ---- 3. merge: two maps (the dictionary of target voxels, the final Unique) ---- *)
Theorem C16_merge :
  forall ord ord', (forall l, Permutation (ord l) l) -> (forall l, Permutation (ord' l) l) ->
  forall H V l l', 0 <= H -> 0 <= V -> (forall i, In i l -> wfz i) -> same_members l l' ->
  Permutation (merge ord H V l) (merge ord' H V l').
Proof. exact merge_deterministic. Qed.
Print Assumptions C16_merge.
Theorem C16_merge_no_duplicates :
  forall ord, (forall l, Permutation (ord l) l) -> forall H V l, NoDup (merge ord H V l).
Proof. exact merge_no_duplicates. Qed.
Print Assumptions C16_merge_no_duplicates.

(* the exported functions on printed valid IDs; fits64: the threshold 4^dh*2^dv of the call stays below 2^63 (2*dh + dv <= 62), which
   the documented memory bound of the function implies by far *)
Theorem C16_MergeExtendedSpatialIds_on_valid_ids :
  forall l l' H V, 0 <= H <= 35 -> 0 <= V <= 35 -> (forall i, In i l -> valid i) -> fits64 H V l -> fits64 H V l' -> same_members l l' ->
  exists r r', merge_ext_api (map print_eid l) H V = Ok r /\ merge_ext_api (map print_eid l') H V = Ok r' /\ Permutation r r' /\ NoDup r.
Proof. exact merge_ext_api_deterministic. Qed.
Print Assumptions C16_MergeExtendedSpatialIds_on_valid_ids.
Theorem C16_MergeSpatialIds_on_valid_ids :
  forall l l' z, 0 <= z <= 35 -> (forall i, In i l -> valid i /\ ev i = eh i) -> fits64 z z l -> fits64 z z l' -> same_members l l' ->
  exists r r', merge_sid_api (map MergeApi.print_sid l) z = Ok r /\ merge_sid_api (map MergeApi.print_sid l') z = Ok r' /\ Permutation r r' /\ NoDup r.
Proof. exact merge_sid_api_deterministic. Qed.
Print Assumptions C16_MergeSpatialIds_on_valid_ids.

(* ---- 4. N-layer neighbourhoods, for arbitrary strings: both calls fail, or both succeed with the same duplicate-free set ---- *)
Theorem C16_neighbourhoods :
  forall ord ord', (forall l, Permutation (ord l) l) -> (forall l, Permutation (ord' l) l) ->
  forall ids ids' H V, same_members ids ids' ->
  match nN_api ids H V, nN_api ids' H V with
  | Ok a, Ok a' => Permutation (ord a) (ord' a') /\ NoDup (ord a)
  | Err, Err => True
  | _, _ => False
  end.
Proof. exact nN_deterministic. Qed.
Print Assumptions C16_neighbourhoods.

(* ---- 5. expansion of one extended ID into spatial IDs ---- *)
Theorem C16_expansion_no_duplicates : forall i, valid i -> NoDup (expand_eid i).
Proof. exact expand_no_duplicates. Qed.
Print Assumptions C16_expansion_no_duplicates.

(* ---- 6. common.Unique / Union (sets), Difference / Intersect (filters that keep order and multiplicity of one list) ---- *)
Theorem C16_Unique_Union :
  forall (A : Type) (eqb : A -> A -> bool), (forall a b, reflect (a = b) (eqb a b)) ->
  forall ord ord', (forall l, Permutation (ord l) l) -> (forall l, Permutation (ord' l) l) ->
  (forall l l', same_members l l' -> Permutation (SetOps.unique eqb ord l) (SetOps.unique eqb ord' l')) /\
  (forall l1 l1' l2 l2', same_members l1 l1' -> same_members l2 l2' -> Permutation (SetOps.union eqb ord l1 l2) (SetOps.union eqb ord' l1' l2')).
Proof. intros A eqb S ord ord' P P'. split; [exact (unique_deterministic eqb S ord ord' P P')|exact (union_deterministic eqb S ord ord' P P')]. Qed.
Print Assumptions C16_Unique_Union.

Theorem C16_Difference_Intersect :
  forall (A : Type) (eqb : A -> A -> bool), (forall a b, reflect (a = b) (eqb a b)) ->
  (forall l1 l1' l2 l2', Permutation l1 l1' -> same_members l2 l2' -> Permutation (difference eqb l1 l2) (difference eqb l1' l2')) /\
  (forall l1 l1' l2 l2', same_members l1 l1' -> same_members l2 l2' -> same_members (difference eqb l1 l2) (difference eqb l1' l2')) /\
  (forall l1 l1' l2 l2', same_members l1 l1' -> Permutation l2 l2' -> Permutation (intersect eqb l1 l2) (intersect eqb l1' l2')) /\
  (forall l1 l1' l2 l2', same_members l1 l1' -> same_members l2 l2' -> same_members (intersect eqb l1 l2) (intersect eqb l1' l2')).
Proof.
  intros A eqb S. split; [exact (difference_first_list_permuted eqb S)|]. split; [exact (difference_members_only eqb S)|].
  split; [exact (intersect_second_list_permuted eqb S)|exact (intersect_members_only eqb S)].
Qed.
Print Assumptions C16_Difference_Intersect.

(* ---- 7. overlap of two lists: the answer is blind to order and repetition in either list ---- *)
Theorem C16_CheckExtendedSpatialIdsArrayOverlap :
  forall l1 l1' l2 l2' e1 e2, parse_all l1 = Some e1 -> parse_all l2 = Some e2 ->
  (forall i, In i e1 -> valid i) -> (forall j, In j e2 -> valid j) ->
  same_members l1 l1' -> same_members l2 l2' -> ext_array l1 l2 = ext_array l1' l2'.
Proof. exact ext_array_deterministic. Qed.
Print Assumptions C16_CheckExtendedSpatialIdsArrayOverlap.
Theorem C16_CheckSpatialIdsArrayOverlap :
  forall l1 l1' l2 l2' e1 e2, map_opt ChangeZoom.parse_sid l1 = Some e1 -> map_opt ChangeZoom.parse_sid l2 = Some e2 ->
  (forall i, In i e1 -> sdom i) -> (forall j, In j e2 -> sdom j) ->
  same_members l1 l1' -> same_members l2 l2' -> sp_array l1 l2 = sp_array l1' l2'.
Proof. exact sp_array_deterministic. Qed.
Print Assumptions C16_CheckSpatialIdsArrayOverlap.

(* ---- 8. key conversions: every pair once, whatever the order and repetition of the inputs (the grouping is order dependent) ---- *)
Theorem C16_key_conversion_pairs :
  forall pss pss', same_members pss pss' ->
  Permutation (List.concat (run [] pss)) (List.concat (run [] pss')) /\ NoDup (List.concat (run [] pss)).
Proof. intros pss pss' E. split; [exact (run_deterministic pss pss' E)|exact (proj1 (run_pairs pss))]. Qed.
Print Assumptions C16_key_conversion_pairs.

(* the same about the IDs of a call: `conv` is the common body of ConvertExtendedSpatialIDsToQuadkeysAndVerticalIDs (e2q) and
   ...AndAltitudekeys (e2qa); which pairs one ID yields is QuadkeyConv.id_pairs.  Two ID lists with the same members, both calls
   successful: the pairs of all returned groups, flattened, are permutations of one duplicate-free list. *)
Theorem C16_key_conversion_of_ids :
  forall (P : Type) (oh ov : Z) (par : P) (vert : Z -> Z -> result (list Z)) (ids ids' : list string) (gs gs' : list (group P)),
  same_members ids ids' -> conv oh ov par vert ids = Ok gs -> conv oh ov par vert ids' = Ok gs' ->
  Permutation (List.concat (map g_pairs gs)) (List.concat (map g_pairs gs')) /\ NoDup (List.concat (map g_pairs gs)).
Proof. exact @conv_pairs_deterministic. Qed.
Print Assumptions C16_key_conversion_of_ids.

(* the three exported forms, both-fail-or-both-succeed (groups_agree: Ok/Ok with the flattened pairs permutations of one duplicate-free
   list, or Err/Err): index form and refused height range (e2q), altitude keys (e2qa), spatial-ID notation first (s2q) *)
Theorem C16_E2Q_perm_invariant :
  forall (P : Type) (par : P) idx ids ids' oh ov, same_members ids ids' -> groups_agree (e2q par idx ids oh ov) (e2q par idx ids' oh ov).
Proof. exact @e2q_perm_invariant. Qed.
Print Assumptions C16_E2Q_perm_invariant.
Theorem C16_E2QA_perm_invariant :
  forall ids ids' oq oa E zo, same_members ids ids' -> groups_agree (e2qa ids oq oa E zo) (e2qa ids' oq oa E zo).
Proof. exact e2qa_perm_invariant. Qed.
Print Assumptions C16_E2QA_perm_invariant.
Theorem C16_S2Q_perm_invariant :
  forall (P : Type) (par : P) idx sids sids' oh ov, same_members sids sids' -> groups_agree (s2q par idx sids oh ov) (s2q par idx sids' oh ov).
Proof. exact @s2q_perm_invariant. Qed.
Print Assumptions C16_S2Q_perm_invariant.

(* ---- 8b. tile conversions, on the model of Tile.v (C13's lemmas restated): requests with the same members ---- *)
Theorem C16_tiles_eids_perm_invariant :
  forall (ord ord' : list eid -> list eid) l1 l2 E zo outV,
  (forall x, Permutation (ord x) x) -> (forall x, Permutation (ord' x) x) -> same_members l1 l2 ->
  match tiles_to_eids l1 E zo outV, tiles_to_eids l2 E zo outV with
  | Ok r1, Ok r2 => Permutation (ord r1) (ord' r2)
  | Err, Err => True
  | _, _ => False
  end.
Proof. exact tiles_eids_perm_invariant. Qed.
Print Assumptions C16_tiles_eids_perm_invariant.
Theorem C16_tiles_eids_nodup :
  forall (ord : list eid -> list eid) l E zo outV r, (forall x, Permutation (ord x) x) -> tiles_to_eids l E zo outV = Ok r -> NoDup (ord r).
Proof. exact tiles_eids_nodup. Qed.
Print Assumptions C16_tiles_eids_nodup.
Theorem C16_tiles_sids_perm_invariant :
  forall l1 l2 E zo outV, same_members l1 l2 ->
  match tiles_to_sids l1 E zo outV, tiles_to_sids l2 E zo outV with
  | Ok s1, Ok s2 => Permutation s1 s2
  | Err, Err => True
  | _, _ => False
  end.
Proof. exact tiles_sids_perm_invariant. Qed.
Print Assumptions C16_tiles_sids_perm_invariant.

(* ---- 8c. the exported per-axis helpers HorizontalZoom / VerticalZoom: functions of their arguments in the model; no index twice ---- *)
Theorem C16_HorizontalZoom_nodup : forall zin x y zout, NoDup (ZoomCore.hzoom zin x y zout).
Proof. exact hzoom_nodup. Qed.
Print Assumptions C16_HorizontalZoom_nodup.
Theorem C16_VerticalZoom_nodup : forall zin f zout, NoDup (ZoomCore.vzoom zin f zout).
Proof. exact vzoom_nodup. Qed.
Print Assumptions C16_VerticalZoom_nodup.

(* ---- 9. corridor, on the model of Corridor.v (after the fixes 70c64b2 and 915e48e).  The model threads the search state of the one
   closest.Measure through the candidates in sorted order (`St`, `measure : St -> id -> result (bool * St)`), so nothing is assumed about
   the purity of a measurement.  Any three map orders, any arrival order of the line's IDs: both runs fail, or both succeed with
   permutations of one duplicate-free list.  fit and measure are the model's oracles for the third-party geometry (C14). ---- *)
Theorem C16_corridor :
  forall on ou oq on' ou' oq' fit (St : Type) (st0 : St) measure L L' skip,
  (forall l, Permutation (on l) l) -> (forall l, Permutation (ou l) l) -> (forall l, Permutation (oq l) l) ->
  (forall l, Permutation (on' l) l) -> (forall l, Permutation (ou' l) l) -> (forall l, Permutation (oq' l) l) ->
  Permutation L L' ->
  match corridor on ou oq fit St st0 measure (Ok L) skip, corridor on' ou' oq' fit St st0 measure (Ok L') skip with
  | Ok r, Ok r' => Permutation r r' /\ NoDup r
  | Err, Err => True
  | _, _ => False
  end.
Proof. exact corridor_deterministic. Qed.
Print Assumptions C16_corridor.

(* ---- 9b. line, on the model of Line.v (any voxel-of-point oracles): the recursion is fixed by the two points; the final Unique only
   permutes a duplicate-free list ---- *)
Theorem C16_line :
  forall (P : Type) vox_top vox_in mid small (ord ord' : list eid -> list eid) fuel (s e : P) l,
  (forall x, Permutation (ord x) x) -> (forall x, Permutation (ord' x) x) ->
  Line.line_ids P vox_top vox_in mid small fuel s e = Some l -> Permutation (ord l) (ord' l) /\ NoDup (ord l).
Proof. exact line_deterministic. Qed.
Print Assumptions C16_line.

(* ---- 9c. (quadkey, vertical index) -> IDs, on the model of QuadkeyConv.v: any lists of items with the same members ---- *)
Theorem C16_ConvertQuadkeysAndVerticalIDsToExtendedSpatialIDs :
  forall (ord ord' : list string -> list string) items items' oh ov,
  (forall x, Permutation (ord x) x) -> (forall x, Permutation (ord' x) x) -> same_members items items' ->
  match q2e items oh ov, q2e items' oh ov with
  | Ok a, Ok a' => Permutation (ord a) (ord' a') /\ NoDup (ord a)
  | Err, Err => True
  | _, _ => False
  end.
Proof. exact q2e_deterministic. Qed.
Print Assumptions C16_ConvertQuadkeysAndVerticalIDsToExtendedSpatialIDs.
Theorem C16_ConvertQuadkeysAndVerticalIDsToSpatialIDs :
  forall items items' z, same_members items items' ->
  match q2s items z, q2s items' z with
  | Ok a, Ok a' => same_members a a'
  | Err, Err => True
  | _, _ => False
  end.
Proof. exact q2s_deterministic. Qed.
Print Assumptions C16_ConvertQuadkeysAndVerticalIDsToSpatialIDs.

(* ---- 10. the run-time checker: an accepted observation [unmodified; repeats; permuted; duplicated] means what the property says ---- *)
Theorem C16_checker_sound :
  forall nodup need obs, check_det nodup need obs = true ->
  exists un reps perms dups dp dd r p d, obs = VL [VB un; VL reps; VL perms; VL dups; VZ dp; VZ dd] /\
    decode_all reps = Some r /\ decode_all perms = Some p /\ decode_all dups = Some d /\
    exists r0 rs, r = r0 :: rs /\ un = true /\ rs <> [] /\ (need = true -> p <> [] /\ d <> []) /\
      (forall x, In x rs -> res_equal_bags r0 x) /\
      (forall x, In x (p ++ d) -> res_equal_sets r0 x) /\
      (nodup = true -> forall x, In x (r ++ p ++ d) -> res_NoDup x).
Proof. exact check_det_sound. Qed.
Print Assumptions C16_checker_sound.

(* ---- non-vacuity ---- *)
(* two different map orders really give different lists, and the theorem relates them *)
Example C16_nonvacuous_orders :
  change_run (fun l => l) [mk 1 0 0 1 0; mk 2 1 1 2 1; mk 1 0 0 1 0] 2 2 <> change_run (@rev eid) [mk 2 1 1 2 1; mk 1 0 0 1 0] 2 2 /\
  Permutation (change_run (fun l => l) [mk 1 0 0 1 0; mk 2 1 1 2 1; mk 1 0 0 1 0] 2 2) (change_run (@rev eid) [mk 2 1 1 2 1; mk 1 0 0 1 0] 2 2).
Proof. exact change_run_two_orders. Qed.
(* the grouping of the key conversions does depend on the input order; the pairs do not *)
Example C16_nonvacuous_groups :
  run [] [[(1, 0); (2, 0)]; [(2, 0)]] = [[(1, 0); (2, 0)]] /\ run [] [[(2, 0)]; [(1, 0); (2, 0)]] = [[(2, 0)]; [(1, 0)]].
Proof. exact run_groups_depend_on_order. Qed.
(* the seeded order dependence of merge, on the model: coarse-first and fine-first give the same single voxel *)
Example C16_nonvacuous_merge :
  merge (fun l => l) 0 0 ([mk 1 0 0 1 0; mk 1 0 1 1 0; mk 1 1 0 1 0; mk 1 1 1 1 0; mk 1 0 0 1 1; mk 1 0 1 1 1; mk 1 1 0 1 1] ++
                          [mk 2 2 2 2 2; mk 2 2 3 2 2; mk 2 3 2 2 2; mk 2 3 3 2 2; mk 2 2 2 2 3; mk 2 2 3 2 3; mk 2 3 2 2 3; mk 2 3 3 2 3]) = [mk 0 0 0 0 0] /\
  merge (@rev eid) 0 0 ([mk 2 2 2 2 2; mk 2 2 3 2 2; mk 2 3 2 2 2; mk 2 3 3 2 2; mk 2 2 2 2 3; mk 2 2 3 2 3; mk 2 3 2 2 3; mk 2 3 3 2 3] ++
                        [mk 1 0 0 1 0; mk 1 0 1 1 0; mk 1 1 0 1 0; mk 1 1 1 1 0; mk 1 0 0 1 1; mk 1 0 1 1 1; mk 1 1 0 1 1]) = [mk 0 0 0 0 0].
Proof. split; vm_compute; reflexivity. Qed.
(* the seeded one-entry cache of HorizontalZoom keyed on (x, y, zoom difference): the model's answers differ at another input zoom *)
Example C16_nonvacuous_hzoom : hzoom_strs 5 3 3 7 <> hzoom_strs 6 3 3 8 /\ (7 - 5 = 8 - 6).
Proof. exact hzoom_depends_on_the_input_zoom. Qed.
(* tiles: a repeated and reordered request gives the same IDs *)
Example C16_nonvacuous_tiles :
  tiles_to_eids [mkt 3 1 2 25 0; mkt 3 1 2 25 1; mkt 3 1 2 25 0] 25 0 25 = Ok [mk 3 1 2 25 1; mk 3 1 2 25 0] /\
  tiles_to_eids [mkt 3 1 2 25 1; mkt 3 1 2 25 0] 25 0 25 = Ok [mk 3 1 2 25 1; mk 3 1 2 25 0].
Proof. exact tiles_order_example. Qed.
(* key conversion of two IDs in both orders: other groups, the same pairs *)
Example C16_nonvacuous_e2q :
  groups_agree (e2q tt true ["2/1/1/2/0"; "1/0/0/2/0"] 2 2) (e2q tt true ["1/0/0/2/0"; "2/1/1/2/0"] 2 2) /\
  e2q tt true ["2/1/1/2/0"; "1/0/0/2/0"] 2 2 <> e2q tt true ["1/0/0/2/0"; "2/1/1/2/0"] 2 2 /\
  e2q tt true ["2/1/1/2/0"; "1/0/0/2/0"] 2 2 <> Err.
Proof.
  split; [apply e2q_perm_invariant; intros a; cbn [In]; tauto|]. split; vm_compute; discriminate.
Qed.
(* the checker accepts consistent runs and rejects each kind of violation *)
Example C16_checker_examples :
  check_runs true true true [ROk ["a"; "b"] ["a"; "b"]; ROk ["b"; "a"] ["b"; "a"]] [ROk ["b"; "a"] ["b"; "a"]] [ROk ["a"; "b"] ["a"; "b"]] = true /\
  check_runs false false true [ROk ["a"; "b"] ["a"; "b"]; ROk ["a"; "b"] ["a"; "b"]] [ROk ["a"] ["a"]] [] = false /\
  check_runs true false true [ROk ["a"; "a"] ["a"; "a"]; ROk ["a"; "a"] ["a"; "a"]] [] [] = false /\
  check_runs false true true [ROk ["a"] ["a"]; ROk ["a"] ["a"]] [] [] = false /\
  check_runs false false false [ROk ["a"] ["a"]; ROk ["a"] ["a"]] [] [] = false.
Proof. repeat split; vm_compute; reflexivity. Qed.
