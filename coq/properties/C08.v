(* C08 — Neighbourhood queries return exactly the surrounding voxels.
   Only statements, `exact` proofs and Print Assumptions live here. Models and proofs: theories/Neighbour.v (on top of theories/Shift.v).
   Vocabulary: n6_api / n8_api / n26_api / nN_api are the string-level executable models of Get6spatialIdsAdjacentToFaces,
   Get8spatialIdsAroundHorizontal, Get26spatialIdsAroundVoxel and GetNspatialIdsAroundVoxcels (offsets enumerated as the Go code does);
   shift_spec i dx dy dv is the modular translation of C07: x, y advanced modulo 2^h, vertical index advanced by dv, zooms kept;
   valids l := every member of l is a valid ID; nN_list = the list returned by nN_api ([] on error).
   ALL theorems are statements about these Coq models, for IDs given as (or spelled as) valid extended IDs; the tie to the Go code is the
   differential run (DC08).  capacity_ok H V := 0 <= H, 0 <= V and (2H+1)^2 (2V+1) <= 2^16: the Go function allocates that many slots
   before looping (16 B each, whatever the input) and panics once the product wraps; the N-layer theorems are stated on that domain
   because nothing is claimed of the code beyond it (the model itself has no such limit: Neighbour.nN_exact etc.). *)
From Coq Require Import ZArith String List Lia.
From SID Require Import Base Str Ids Wire Shift Neighbour NeighbourChk DC08.
Import ListNotations.
Open Scope Z_scope.

(* ---- exactness: each query returns exactly the shifts by every offset of its stencil ---- *)
(* 6: unit steps along one axis *)
Theorem C08_six_faces_exact : forall i s, valid i ->
  (In s (n6_api (print_eid i)) <-> exists dx dy dv, Z.abs dx + Z.abs dy + Z.abs dv = 1 /\ s = print_eid (shift_spec i dx dy dv)).
Proof. exact v_n6_exact. Qed.
Print Assumptions C08_six_faces_exact.

(* 8: the horizontal ring *)
Theorem C08_eight_ring_exact : forall i s, valid i ->
  (In s (n8_api (print_eid i)) <-> exists dx dy, Z.max (Z.abs dx) (Z.abs dy) = 1 /\ s = print_eid (shift_spec i dx dy 0)).
Proof. exact v_n8_exact. Qed.
Print Assumptions C08_eight_ring_exact.

(* 26: the full 3x3x3 shell *)
Theorem C08_twentysix_shell_exact : forall i s, valid i ->
  (In s (n26_api (print_eid i)) <->
   exists dx dy dv, Z.max (Z.abs dx) (Z.max (Z.abs dy) (Z.abs dv)) = 1 /\ s = print_eid (shift_spec i dx dy dv)).
Proof. exact v_n26_exact. Qed.
Print Assumptions C08_twentysix_shell_exact.

(* N layers, for a list: no error, no duplicates, and exactly the shifts of every listed voxel by every non-zero offset of the box *)
Theorem C08_N_layers_exact_no_duplicates : forall l H V, valids l -> capacity_ok H V ->
  exists r, nN_api (map print_eid l) H V = Ok r /\ NoDup r /\
    forall s, In s r <-> exists i dx dy dv, In i l /\ - H <= dx <= H /\ - H <= dy <= H /\ - V <= dv <= V /\
                                     ~ (dx = 0 /\ dy = 0 /\ dv = 0) /\ s = print_eid (shift_spec i dx dy dv).
Proof. exact cap_nN_exact. Qed.
Print Assumptions C08_N_layers_exact_no_duplicates.

(* the result for a list is the union of the results for its members *)
Theorem C08_N_layers_list_is_union : forall l H V s, valids l -> capacity_ok H V ->
  (In s (nN_list (map print_eid l) H V) <-> exists i, In i l /\ In s (nN_list [print_eid i] H V)).
Proof. exact (fun l H V s hl hc => cap_nN_union l H V s hl hc). Qed.
Print Assumptions C08_N_layers_list_is_union.

(* the 26-query is the (1,1)-layer query *)
Theorem C08_twentysix_is_one_layer : forall i s, valid i -> (In s (n26_api (print_eid i)) <-> In s (nN_list [print_eid i] 1 1)).
Proof. exact v_n26_is_1layer. Qed.
Print Assumptions C08_twentysix_is_one_layer.

(* ---- counts: wherever the stencil is narrower than the grid the members are pairwise distinct and none is the voxel itself ---- *)
Theorem C08_six_distinct : forall i, valid i -> 3 <= 2 ^ eh i ->
  NoDup (n6_api (print_eid i)) /\ List.length (n6_api (print_eid i)) = 6%nat /\ ~ In (print_eid i) (n6_api (print_eid i)).
Proof. exact v_n6_count. Qed.
Print Assumptions C08_six_distinct.
Theorem C08_eight_distinct : forall i, valid i -> 3 <= 2 ^ eh i ->
  NoDup (n8_api (print_eid i)) /\ List.length (n8_api (print_eid i)) = 8%nat /\ ~ In (print_eid i) (n8_api (print_eid i)).
Proof. exact v_n8_count. Qed.
Print Assumptions C08_eight_distinct.
Theorem C08_twentysix_distinct : forall i, valid i -> 3 <= 2 ^ eh i ->
  NoDup (n26_api (print_eid i)) /\ List.length (n26_api (print_eid i)) = 26%nat /\ ~ In (print_eid i) (n26_api (print_eid i)).
Proof. exact v_n26_count. Qed.
Print Assumptions C08_twentysix_distinct.
Theorem C08_N_layers_count : forall i H V, valid i -> capacity_ok H V -> 2 * H + 1 <= 2 ^ eh i ->
  exists r, nN_api [print_eid i] H V = Ok r /\ NoDup r /\
    Z.of_nat (List.length r) = (2 * H + 1) * (2 * H + 1) * (2 * V + 1) - 1 /\ ~ In (print_eid i) r.
Proof. exact cap_nN_count. Qed.
Print Assumptions C08_N_layers_count.
(* the stencil itself: (2H+1)^2 (2V+1) - 1 offsets, for every layer count *)
Theorem C08_stencil_size : forall H V, 0 <= H -> 0 <= V ->
  Z.of_nat (List.length (stencil H V)) = (2 * H + 1) * (2 * H + 1) * (2 * V + 1) - 1.
Proof. exact stencil_length. Qed.
Print Assumptions C08_stencil_size.

(* ---- symmetry of the neighbour relation (at every zoom, also where offsets wrap) ---- *)
Theorem C08_six_symmetric : forall i j, valid i -> valid j ->
  (In (print_eid j) (n6_api (print_eid i)) <-> In (print_eid i) (n6_api (print_eid j))).
Proof. exact v_n6_symmetric. Qed.
Print Assumptions C08_six_symmetric.
Theorem C08_eight_symmetric : forall i j, valid i -> valid j ->
  (In (print_eid j) (n8_api (print_eid i)) <-> In (print_eid i) (n8_api (print_eid j))).
Proof. exact v_n8_symmetric. Qed.
Print Assumptions C08_eight_symmetric.
Theorem C08_twentysix_symmetric : forall i j, valid i -> valid j ->
  (In (print_eid j) (n26_api (print_eid i)) <-> In (print_eid i) (n26_api (print_eid j))).
Proof. exact v_n26_symmetric. Qed.
Print Assumptions C08_twentysix_symmetric.
Theorem C08_N_layers_symmetric : forall H V i j, capacity_ok H V -> valid i -> valid j ->
  (In (print_eid j) (nN_list [print_eid i] H V) <-> In (print_eid i) (nN_list [print_eid j] H V)).
Proof. exact cap_nN_symmetric. Qed.
Print Assumptions C08_N_layers_symmetric.
(* in the form observed at run time: no member of a valid voxel's neighbourhood lacks that voxel among its own neighbours
   (members may lie above/below the valid vertical range; the relation still holds) *)
Theorem C08_N_layers_no_asymmetric_member : forall i H V, valid i -> capacity_ok H V ->
  asym (nN1 H V) (print_eid i) = [].
Proof. exact cap_nN_asym_nil. Qed.
Print Assumptions C08_N_layers_no_asymmetric_member.
Theorem C08_fixed_no_asymmetric_member : forall i, valid i ->
  asym n6_api (print_eid i) = [] /\ asym n8_api (print_eid i) = [] /\ asym n26_api (print_eid i) = [].
Proof. exact (fun i h => conj (n6_asym_nil i h) (conj (n8_asym_nil i h) (n26_asym_nil i h))). Qed.
Print Assumptions C08_fixed_no_asymmetric_member.

(* ---- error results and degenerate arguments: what the MODEL returns (these unfold the model's first branches; they are here because the
   run-time checker demands exactly this of the code: an error and no list / empty strings) ---- *)
Theorem C08_negative_layers_error : forall ids H V, H < 0 \/ V < 0 -> nN_api ids H V = Err.
Proof. exact nN_negative. Qed.
Print Assumptions C08_negative_layers_error.
Theorem C08_malformed_member_error : forall ids H V s, In s ids -> parse_eid s = None -> nN_api ids H V = Err.
Proof. exact nN_malformed. Qed.
Print Assumptions C08_malformed_member_error.
Theorem C08_zero_layers_empty : forall l, valids l -> nN_api (map print_eid l) 0 0 = Ok [].
Proof. exact v_nN_zero_layers. Qed.
Print Assumptions C08_zero_layers_empty.
Theorem C08_empty_input_empty : forall H V, capacity_ok H V -> nN_api [] H V = Ok [].
Proof. exact cap_nN_empty. Qed.
Print Assumptions C08_empty_input_empty.
(* the fixed-size queries have no error result: on a malformed ID they return 6 / 8 / 26 empty strings *)
Theorem C08_fixed_malformed_gives_empty_strings : forall s, parse_eid s = None ->
  n6_api s = repeat EmptyString 6 /\ n8_api s = repeat EmptyString 8 /\ n26_api s = repeat EmptyString 26.
Proof. exact (fun s h => conj (n6_malformed s h) (conj (n8_malformed s h) (n26_malformed s h))). Qed.
Print Assumptions C08_fixed_malformed_gives_empty_strings.

(* ---- the stencil of the specification: the box minus the centre ---- *)
Theorem C08_stencil_members : forall H V o, In o (stencil H V) <->
  (- H <= odx o <= H /\ - H <= ody o <= H /\ - V <= odv o <= V) /\ o <> o0.
Proof. exact in_stencil. Qed.
Print Assumptions C08_stencil_members.

(* ---- accepted non-canonical spellings ("+3/07/-0/+1/-01") of valid IDs are treated like the canonical form ---- *)
Theorem C08_spelling_independent : forall s i, parse_eid s = Some i -> valid i ->
  n6_api s = n6_api (print_eid i) /\ n8_api s = n8_api (print_eid i) /\ n26_api s = n26_api (print_eid i).
Proof.
  exact (fun s i p v => conj (n6_spell s i p (valid_fields_ok i v)) (conj (n8_spell s i p (valid_fields_ok i v)) (n26_spell s i p (valid_fields_ok i v)))).
Qed.
Print Assumptions C08_spelling_independent.
Theorem C08_N_layers_spelling_independent : forall ss l H V, spells ss l -> nN_api ss H V = nN_api (map print_eid l) H V.
Proof. exact cap_nN_spelling. Qed.
Print Assumptions C08_N_layers_spelling_independent.

(* ---- the run-time checkers applied to the implementation's output are sound (s : any accepted spelling of the valid ID i) ---- *)
Theorem C08_checker_fixed_sound : forall offs s i obs, parse_eid s = Some i -> valid i -> check_fixed3 offs s obs = Some true ->
  (forall m, In m obs <-> exists o, In o offs /\ m = print_eid (shift_o i o)) /\
  List.length obs = List.length offs /\
  (3 <= 2 ^ eh i -> NoDup obs /\ ~ In (print_eid i) obs).
Proof. exact check_fixed3_sound. Qed.
Print Assumptions C08_checker_fixed_sound.
Theorem C08_checker_N_sound : forall ss l H V err r, spells ss l -> valids l -> capacity_ok H V -> check_N3 ss H V err r = Some true ->
  err = false /\ NoDup r /\
  (forall s, In s r <-> exists i o, In i l /\ In o (stencil H V) /\ s = print_eid (shift_o i o)) /\
  (forall i, l = [i] -> 2 * H + 1 <= 2 ^ eh i ->
     Z.of_nat (List.length r) = (2 * H + 1) * (2 * H + 1) * (2 * V + 1) - 1 /\ ~ In (print_eid i) r).
Proof. exact check_N3_sound. Qed.
Print Assumptions C08_checker_N_sound.
(* in the error cases the checker accepts only "error, and no list with it" *)
Theorem C08_checker_N_error_cases : forall ids H V err r,
  (H < 0 \/ V < 0 \/ (capacity_ok H V /\ parse_all ids = None)) -> check_N3 ids H V err r = Some true -> err = true /\ r = [].
Proof. exact check_N3_error_cases. Qed.
Print Assumptions C08_checker_N_error_cases.

(* ---- histories of calls ----
   The property quantifies over every history of exported calls (earlier queries with other arguments, failed calls, the caller overwriting
   the slices it passed or was handed, the caller parsing the same ID itself and mutating its own object).  The models are pure: the
   expected answer of a call is a function of that call's own arguments.  The run-time entry "History" performs a whole history in one
   case and judges every step exactly like a standalone call of the plain entry: *)
(* a step that stands for a call gets the verdict of the plain entry on the call's own arguments, whatever the caller-side options
   (mut: the caller overwrites the returned slice; over: what the caller writes into its own argument slice afterwards) *)
Theorem C08_history_step_is_plain_call : forall fn id mut o,
  existsb (String.eqb fn) ["Get6spatialIdsAdjacentToFaces"; "Get8spatialIdsAroundHorizontal"; "Get26spatialIdsAroundVoxel"]%string = true ->
  step_verdict (VL [VS fn; VS id; VZ mut]) o = run_table plain_table no_oracle fn [VS id] o.
Proof. exact step_is_plain_call_fixed. Qed.
Print Assumptions C08_history_step_is_plain_call.
Theorem C08_history_step_is_plain_call_N : forall ids H V mut over o, all_strings over = true ->
  step_verdict (VL [VS "GetNspatialIdsAroundVoxcels"%string; ids; VZ H; VZ V; VZ mut; VL over]) o = d_N [ids; VZ H; VZ V] o.
Proof. exact step_is_plain_call_N. Qed.
Print Assumptions C08_history_step_is_plain_call_N.
(* the verdict (expected answer included) of a step is the same after any prefix and before any suffix of other steps *)
Theorem C08_history_independent : forall pre post s opre opost o, List.length pre = List.length opre ->
  exists vpre, hist_verdicts pre opre = Some vpre /\
    forall vpost, hist_verdicts post opost = Some vpost ->
      hist_verdicts (pre ++ s :: post) (opre ++ o :: opost) = Some (vpre ++ step_verdict s o :: vpost).
Proof. exact history_independent. Qed.
Print Assumptions C08_history_independent.
(* a history passes (corr and prop) exactly when every one of its steps passes as a standalone call *)
Theorem C08_history_passes_iff_every_step_passes : forall steps ob vs, hist_verdicts steps ob = Some vs -> existsb is_bad vs = false ->
  (v_corr (d_history [VL steps] (VL ob)) = true /\ v_prop (d_history [VL steps] (VL ob)) = true <->
   forall v, In v vs -> v_corr v = true /\ v_prop v = true).
Proof. exact history_passes_iff. Qed.
Print Assumptions C08_history_passes_iff_every_step_passes.

(* ---- non-vacuity ---- *)
(* an edge voxel at zoom 2 (stencil narrower than the grid): 6 distinct wrapped neighbours *)
Example C08_nonvacuous_six : valid (mk 2 0 3 4 (-16)) /\ 3 <= 2 ^ eh (mk 2 0 3 4 (-16)) /\
  n6_api "2/0/3/4/-16" = ["2/3/3/4/-16"; "2/0/2/4/-16"; "2/0/3/4/-17"; "2/1/3/4/-16"; "2/0/0/4/-16"; "2/0/3/4/-15"]%string.
Proof. split; [unfold valid; cbn; lia|]. split; [cbn; lia|vm_compute; reflexivity]. Qed.
(* zoom 1: wrapped neighbours coincide — the set is still the stencil image, the count law does not apply (2^1 < 3) *)
Example C08_nonvacuous_wrap_coincide :
  nN_api ["1/0/0/3/5"%string] 1 0 = Ok ["1/1/1/3/5"; "1/1/0/3/5"; "1/0/1/3/5"]%string.
Proof. vm_compute. reflexivity. Qed.
(* more than one lap: zoom 1, three layers; the voxel is then a member of its own neighbourhood (offset (2,0,0) wraps onto it) *)
Example C08_nonvacuous_more_than_one_lap :
  nN_api ["1/0/0/3/5"%string] 3 0 = Ok ["1/1/1/3/5"; "1/1/0/3/5"; "1/0/1/3/5"; "1/0/0/3/5"]%string.
Proof. vm_compute. reflexivity. Qed.
(* two adjacent voxels, one layer: 2 * 26 shifts, 36 distinct members (both centres are members: each is the other's neighbour) *)
Example C08_nonvacuous_list :
  valids [mk 3 1 1 3 0; mk 3 2 1 3 0] /\
  (exists r, nN_api ["3/1/1/3/0"; "3/2/1/3/0"]%string 1 1 = Ok r /\ List.length r = 36%nat /\ In "3/1/1/3/0"%string r).
Proof.
  split.
  - intros i [<-|[<-|[]]]; unfold valid; cbn; lia.
  - eexists. split; [vm_compute; reflexivity|]. split; [reflexivity|]. cbn. tauto.
Qed.
Example C08_nonvacuous_count : valid (mk 3 7 0 4 15) /\ 2 * 2 + 1 <= 2 ^ 3 /\
  (exists r, nN_api ["3/7/0/4/15"%string] 2 1 = Ok r /\ Z.of_nat (List.length r) = (2 * 2 + 1) * (2 * 2 + 1) * (2 * 1 + 1) - 1).
Proof.
  split; [unfold valid; cbn; lia|]. split; [cbn; lia|]. eexists. split; [vm_compute; reflexivity|reflexivity].
Qed.
Example C08_nonvacuous_errors :
  nN_api ["3/7/0/4/15"%string] (-1) 0 = Err /\ nN_api ["3/7/0/4/15"; "a/0/0/0/0"]%string 1 1 = Err /\
  nN_api ["3/7/0/4/15"%string] 0 0 = Ok [].
Proof. vm_compute. repeat split. Qed.
(* the capacity bound is inhabited up to H = 127 (V = 0) and by every layer pair 0..4 *)
Example C08_nonvacuous_capacity : capacity_ok 127 0 /\ capacity_ok 4 4 /\ capacity_ok 10 10 /\ ~ capacity_ok 128 0.
Proof. unfold capacity_ok, capacity. repeat split; try (vm_compute; congruence). intros (_ & _ & H). vm_compute in H. congruence. Qed.
Example C08_nonvacuous_spelling : parse_eid "+2/00/03/4/-016" = Some (mk 2 0 3 4 (-16)) /\
  n6_api "+2/00/03/4/-016" = ["2/3/3/4/-16"; "2/0/2/4/-16"; "2/0/3/4/-17"; "2/1/3/4/-16"; "2/0/0/4/-16"; "2/0/3/4/-15"]%string.
Proof. split; vm_compute; reflexivity. Qed.

(* a history: ring of an edge voxel, the caller's own parse-and-mutate, the ring of the same (x,y) one zoom finer, a failing list query,
   the list query again with a valid list; the expected answers are those of the standalone calls (and "4/8/7/4/0" is not wrapped) *)
Example C08_nonvacuous_history :
  let steps := [VL [VS "Get8spatialIdsAroundHorizontal"; VS "3/7/7/3/0"; VZ 1];
                VL [VS "OwnParseAndMutate"; VS "4/7/7/4/0"; VL [VL [VS "SetX"; VZ 0]; VL [VS "SetZoom"; VZ 3; VZ 3]]];
                VL [VS "Get8spatialIdsAroundHorizontal"; VS "4/7/7/4/0"; VZ 0];
                VL [VS "GetNspatialIdsAroundVoxcels"; VL [VS "3/7/7/3/0"; VS "x"]; VZ 1; VZ 0; VZ 0; VL [VS "3/0/0/3/0"; VS "3/1/0/3/0"]];
                VL [VS "GetNspatialIdsAroundVoxcels"; VL [VS "3/0/0/3/0"; VS "3/1/0/3/0"]; VZ 1; VZ 0; VZ 1; VL []]]%string in
  let obs := [of_LS (n8_api "3/7/7/3/0"); VNil; of_LS (n8_api "4/7/7/4/0"); VE VNil;
              of_LS (nN_list ["3/0/0/3/0"; "3/1/0/3/0"] 1 0)]%string in
  v_corr (d_history [VL steps] (VL obs)) = true /\ v_prop (d_history [VL steps] (VL obs)) = true /\
  In "4/8/7/4/0"%string (n8_api "4/7/7/4/0") /\
  v_prop (d_history [VL steps] (VL (map (fun o => match o with VE _ => of_LS [] | _ => o end) obs))) = false.
Proof. vm_compute. repeat split; tauto. Qed.
