(* C10 — Converting between ID notations loses nothing.
   Only statements, `exact` proofs and Print Assumptions live here. Models and proofs: theories/Notation.v (on Ids.v, Str.v, ZoomCore.v, Voxel.v).
   Vocabulary: sids_to_eids / eids_to_sids = shape.ConvertSpatialIdsToExtendedSpatialIds / ConvertExtendedSpatialIdsToSpatialIds (string lists,
   result Ok/Err); parse_eid / print_eid = object.NewExtendedSpatialID / ID(); parse_sid / print_sid = a spatial ID z/f/x/y read as / written from
   the voxel record with both zooms z; expand_eid = transform.ConvertExtendedSpatialIDToSpatialIDs; voxel_id = transform.GetVoxelIDfromSpatialID;
   inR i p = the point p (normalised coordinates) lies in the half-open box of voxel i. *)
From Coq Require Import ZArith String Ascii List Bool Permutation Reals Lia.
From SIDGen Require Generated.
From SID Require Import Base Str Ids Voxel ZoomCore GenEqZoom StrSpec Notation GenC10.
Import ListNotations.
Open Scope Z_scope.

(* ---- 1. spatial -> extended -> spatial is the identity, for every list the first conversion accepts (no well-formedness needed:
           the characters of every field come back, hence also the numbers) ---- *)
Theorem C10_spatial_extended_spatial_identity : forall l r, sids_to_eids l = Ok r -> eids_to_sids r = Ok l.
Proof. exact sids_eids_sids. Qed.
Print Assumptions C10_spatial_extended_spatial_identity.

(* ---- 2. extended -> spatial -> extended: the code never reads the vertical-zoom field; coming back it is a copy of the horizontal-zoom
           field. All other fields are unchanged; the result is the input exactly for the IDs whose two zoom fields coincide ---- *)
Theorem C10_extended_spatial_extended : forall l r, eids_to_sids l = Ok r -> sids_to_eids r = Ok (map collapse_v l).
Proof. exact eids_sids_eids. Qed.
Print Assumptions C10_extended_spatial_extended.
Theorem C10_extended_spatial_extended_identity_iff : forall e h x y v f, split e = [h; x; y; v; f] -> (collapse_v e = e <-> v = h).
Proof. exact collapse_v_id. Qed.
Print Assumptions C10_extended_spatial_extended_identity_iff.
Theorem C10_extended_spatial_extended_identity : forall l r, Forall zooms_coincide l -> eids_to_sids l = Ok r -> sids_to_eids r = Ok l.
Proof. exact eids_sids_eids_id. Qed.
Print Assumptions C10_extended_spatial_extended_identity.
(* on numbers: (h, x, y, v, f) comes back as (h, x, y, h, f) *)
Theorem C10_extended_spatial_extended_numbers : forall e i, parse_eid e = Some i ->
  parse_eid (collapse_v e) = Some (mk (eh i) (ex i) (ey i) (eh i) (ef i)).
Proof. exact collapse_v_numbers. Qed.
Print Assumptions C10_extended_spatial_extended_numbers.

(* ---- 3. component by component, for every well-formed ID (canonical or with "+"/leading zeros): z/f/x/y ↦ z/x/y/z/f and h/x/y/v/f ↦ h/f/x/y ---- *)
Theorem C10_spatial_to_extended_components : forall s j, parse_sid s = Some j -> exists e, sid_to_eid_str s = Some e /\ parse_eid e = Some j.
Proof. exact sid_to_eid_numbers. Qed.
Print Assumptions C10_spatial_to_extended_components.
Theorem C10_extended_to_spatial_components : forall e i, parse_eid e = Some i ->
  exists s, eid_to_sid_str e = Some s /\ parse_sid s = Some (mk (eh i) (ex i) (ey i) (eh i) (ef i)).
Proof. exact eid_to_sid_numbers. Qed.
Print Assumptions C10_extended_to_spatial_components.
(* on canonical strings, for all integers *)
Theorem C10_spatial_to_extended_canonical : forall z f x y, sid_to_eid_str (print_sid (mk z x y z f)) = Some (print_eid (mk z x y z f)).
Proof. exact sid_to_eid_print. Qed.
Print Assumptions C10_spatial_to_extended_canonical.
Theorem C10_extended_to_spatial_canonical : forall i, eid_to_sid_str (print_eid i) = Some (print_sid i).
Proof. exact eid_to_sid_print. Qed.
Print Assumptions C10_extended_to_spatial_canonical.

(* ---- 4. list length and order are preserved: position n of the output is the conversion of position n of the input ---- *)
Theorem C10_spatial_to_extended_length_order : forall l r, sids_to_eids l = Ok r ->
  length r = length l /\ forall n s, nth_error l n = Some s -> exists e, nth_error r n = Some e /\ sid_to_eid_str s = Some e.
Proof. exact sids_to_eids_positions. Qed.
Print Assumptions C10_spatial_to_extended_length_order.
Theorem C10_extended_to_spatial_length_order : forall l r, eids_to_sids l = Ok r ->
  length r = length l /\ forall n e, nth_error l n = Some e -> exists s, nth_error r n = Some s /\ eid_to_sid_str e = Some s.
Proof. exact eids_to_sids_positions. Qed.
Print Assumptions C10_extended_to_spatial_length_order.

(* ---- 5. an error is returned exactly when some element does not have 4 (resp. 5) fields ---- *)
Theorem C10_spatial_to_extended_error_iff_arity : forall l, sids_to_eids l = Err <-> exists s, In s l /\ length (split s) <> 4%nat.
Proof. exact sids_to_eids_err. Qed.
Print Assumptions C10_spatial_to_extended_error_iff_arity.
Theorem C10_extended_to_spatial_error_iff_arity : forall l, eids_to_sids l = Err <-> exists s, In s l /\ length (split s) <> 5%nat.
Proof. exact eids_to_sids_err. Qed.
Print Assumptions C10_extended_to_spatial_error_iff_arity.

(* ---- 6. object: printing then parsing returns the same five numbers in the same positions, for all int64 field values;
           parsing then printing keeps the numbers (and normalises the characters: "+1" ↦ "1", "007" ↦ "7") ---- *)
Theorem C10_parse_of_ID : forall i, fields_ok i = true -> new_eid (print_eid i) = Ok i.
Proof. exact new_eid_ID. Qed.
Print Assumptions C10_parse_of_ID.
Theorem C10_ID_of_parse : forall s i, new_eid s = Ok i -> new_eid (print_eid i) = Ok i.
Proof. exact ID_new_eid. Qed.
Print Assumptions C10_ID_of_parse.

(* ---- 7. expansion of an extended ID into spatial IDs (theorems about the model expand_eid; the model is tied to the Go function by the
           differential run for zoom differences d <= 6 (horizontal) / d <= 12 (vertical), and its two integer kernels are tied to the Go
           source for ALL arguments by regeneration) ---- *)
(* the per-axis kernels used by the model are the functions regenerated from integrate/change_zoom.go on every run: an edit of
   HorizontalZoomMinMax or of the bounds of VerticalZoom in /repo breaks this obligation of C10 *)
Theorem C10_zoom_kernels_are_the_regenerated_ones :
  (forall zin x y zout, Generated.HorizontalZoomMinMax zin x y zout = hzoom_minmax zin x y zout) /\
  (forall zin f zout, Generated.VerticalZoom_minmax zin f zout = vzoom_minmax zin f zout).
Proof. exact (conj gen_HorizontalZoomMinMax_eq gen_VerticalZoom_minmax_eq). Qed.
Print Assumptions C10_zoom_kernels_are_the_regenerated_ones.
(* the string function as written is the record function printed *)
Theorem C10_expansion_strings_are_records : forall i, expand_eid i = map print_sid (expand_rec i).
Proof. exact expand_eid_rec. Qed.
Print Assumptions C10_expansion_strings_are_records.
(* results = exactly the voxels with both zooms max h v that overlap the input *)
Theorem C10_expansion_members : forall i j, 0 <= eh i -> 0 <= ev i -> 0 <= ex i -> 0 <= ey i ->
  In j (expand_rec i) <-> eh j = tzoom i /\ ev j = tzoom i /\ overlaps i j.
Proof. exact expand_rec_spec. Qed.
Print Assumptions C10_expansion_members.
(* no string twice *)
Theorem C10_expansion_no_duplicates : forall i, valid i -> NoDup (expand_eid i).
Proof. exact expand_eid_NoDup. Qed.
Print Assumptions C10_expansion_no_duplicates.
(* every returned string is the canonical spatial ID of a valid voxel at the larger of the two zooms *)
Theorem C10_expansion_at_larger_zoom : forall i s, valid i -> In s (expand_eid i) ->
  exists j, parse_sid s = Some j /\ s = print_sid j /\ In j (expand_rec i) /\ valid j /\ eh j = tzoom i /\ ev j = tzoom i.
Proof. exact expand_eid_members. Qed.
Print Assumptions C10_expansion_at_larger_zoom.
(* 4^d results when the horizontal zoom is the smaller one (d = v - h), 2^d when the vertical one is (d = h - v); 1 when equal *)
Theorem C10_expansion_count : forall i, length (expand_eid i) = Z.to_nat (if eh i <=? ev i then 4 ^ (ev i - eh i) else 2 ^ (eh i - ev i)).
Proof. exact expand_eid_length. Qed.
Print Assumptions C10_expansion_count.
(* the union of the result regions is exactly the region of the input voxel ... *)
Theorem C10_expansion_region_exact : forall i p, valid i ->
  inR i p <-> exists s j, In s (expand_eid i) /\ parse_sid s = Some j /\ inR j p.
Proof. exact expand_eid_region. Qed.
Print Assumptions C10_expansion_region_exact.
(* ... and the result regions are pairwise disjoint *)
Theorem C10_expansion_disjoint : forall i j1 j2 p, 0 <= eh i -> 0 <= ev i -> 0 <= ex i -> 0 <= ey i ->
  In j1 (expand_rec i) -> In j2 (expand_rec i) -> inR j1 p -> inR j2 p -> j1 = j2.
Proof. exact expand_disjoint. Qed.
Print Assumptions C10_expansion_disjoint.

(* ---- 8. GetVoxelIDfromSpatialID returns [x; y; f] of every well-formed extended ID; it has no error result: fewer than five
           fields give the empty list, unparsable fields are read as 0 / the nearest int64 ---- *)
Theorem C10_voxel_id_components : forall s i, parse_eid s = Some i -> voxel_id s = [ex i; ey i; ef i].
Proof. exact voxel_id_spec. Qed.
Print Assumptions C10_voxel_id_components.
Theorem C10_voxel_id_empty_iff_short : forall s, voxel_id s = [] <-> (length (split s) < 5)%nat.
Proof. exact voxel_id_empty. Qed.
Print Assumptions C10_voxel_id_empty_iff_short.

(* ---- 9. the run-time checkers applied to the implementation's output decide exactly the statements above ---- *)
Theorem C10_checker_spatial_to_extended : forall l obs, check_s2e l obs = true <-> s2e_spec l obs.
Proof. exact check_s2e_sound. Qed.
Print Assumptions C10_checker_spatial_to_extended.
Theorem C10_checker_extended_to_spatial : forall l obs, check_e2s l obs = true <-> e2s_spec l obs.
Proof. exact check_e2s_sound. Qed.
Print Assumptions C10_checker_extended_to_spatial.
(* the field-permutation statement holds of exactly one observation: the model's result *)
Theorem C10_spec_determines_spatial_to_extended : forall l obs, s2e_spec l obs <-> obs = res_opt (sids_to_eids l).
Proof. exact s2e_spec_model. Qed.
Print Assumptions C10_spec_determines_spatial_to_extended.
Theorem C10_spec_determines_extended_to_spatial : forall l obs, e2s_spec l obs <-> obs = res_opt (eids_to_sids l).
Proof. exact e2s_spec_model. Qed.
Print Assumptions C10_spec_determines_extended_to_spatial.
Theorem C10_checker_round_trip : forall dir l obs, check_roundtrip dir l obs = true <-> roundtrip_spec dir l obs.
Proof. exact check_roundtrip_sound. Qed.
Print Assumptions C10_checker_round_trip.
Theorem C10_round_trip_holds_of_model : forall dir l, roundtrip_spec dir l (res_opt (roundtrip_model dir l)).
Proof. exact roundtrip_model_spec. Qed.
Print Assumptions C10_round_trip_holds_of_model.
Theorem C10_checker_parse_print : forall s obs, check_parseprint s obs = true <-> parseprint_spec s obs.
Proof. exact check_parseprint_sound. Qed.
Print Assumptions C10_checker_parse_print.
Theorem C10_parse_print_holds_of_model : forall s, parseprint_spec s (res_opt (parseprint_model s)).
Proof. exact parseprint_model_spec. Qed.
Print Assumptions C10_parse_print_holds_of_model.
(* expansion checker (all at the target zoom, each overlapping the input, no voxel twice, count = closed form) accepts
   exactly the outputs that are a permutation of the expansion *)
Theorem C10_checker_expansion : forall s obs, check_expand s obs = true <-> expand_spec s obs.
Proof. exact check_expand_sound. Qed.
Print Assumptions C10_checker_expansion.
(* the variant used at run time (accepts an output equal to the model's list without re-parsing it) decides the same statement *)
Theorem C10_checker_expansion_fast : forall s obs, check_expand_fast s obs = true <-> expand_spec s obs.
Proof. exact check_expand_fast_sound. Qed.
Print Assumptions C10_checker_expansion_fast.
(* hence, for an accepted output: no duplicates, count, zoom, exact partition of the input's region *)
Theorem C10_accepted_expansion_is_partition : forall s i o, parse_eid s = Some i -> valid i -> expand_spec s (Some o) ->
  NoDup o /\ length o = Z.to_nat (expand_count i) /\
  (forall t, In t o -> exists j, parse_sid t = Some j /\ valid j /\ eh j = tzoom i /\ ev j = tzoom i) /\
  (forall p, inR i p <-> exists t j, In t o /\ parse_sid t = Some j /\ inR j p) /\
  (forall n m t u j k p, nth_error o n = Some t -> nth_error o m = Some u -> parse_sid t = Some j -> parse_sid u = Some k ->
                         inR j p -> inR k p -> n = m).
Proof. exact expand_spec_consequences. Qed.
Print Assumptions C10_accepted_expansion_is_partition.
Theorem C10_expansion_holds_of_model : forall s, on_grid s -> expand_spec s (res_opt (expand_api s)).
Proof. exact expand_model_spec. Qed.
Print Assumptions C10_expansion_holds_of_model.
Theorem C10_checker_expansion_sequence : forall l obs, check_expand_seq l obs = true <-> Forall2 expand_spec l obs.
Proof. exact check_expand_seq_sound. Qed.
Print Assumptions C10_checker_expansion_sequence.
Theorem C10_checker_voxel_id : forall s obs, check_voxel s obs = true <-> voxel_spec s obs.
Proof. exact check_voxel_sound. Qed.
Print Assumptions C10_checker_voxel_id.
Theorem C10_voxel_id_holds_of_model : forall s, voxel_spec s (voxel_id s).
Proof. exact voxel_model_spec. Qed.
Print Assumptions C10_voxel_id_holds_of_model.

(* ---- 10. one object reset several times, ON THE MODEL (reset_seq; the first theorem unfolds its definition — the tie to the Go code is
            the differential run of the ResetSequence entry): after a successful reset the object is determined by the last string alone
            (no stale field); a failed reset reports an error ---- *)
Theorem C10_reset_sequence_no_stale_state : forall st l,
  Forall2 (fun s o => match parse_eid s with Some i => o = (false, i) | None => fst o = true end) l (reset_seq st l).
Proof. exact reset_seq_no_stale_state. Qed.
Print Assumptions C10_reset_sequence_no_stale_state.
Theorem C10_checker_reset_sequence : forall l obs, check_reset_seq l obs = true <-> Forall2 reset_step_spec l obs.
Proof. exact check_reset_seq_sound. Qed.
Print Assumptions C10_checker_reset_sequence.
Theorem C10_reset_sequence_holds_of_model : forall st l,
  Forall2 reset_step_spec l (map (fun o => (fst o, print_eid (snd o), field_params (snd o))) (reset_seq st l)).
Proof. exact reset_seq_model_spec. Qed.
Print Assumptions C10_reset_sequence_holds_of_model.

(* ---- 11. the setters of the object, ON THE MODEL (apply_setter = record update; these two facts unfold the model's definition and say
            nothing about the Go code by themselves — the tie is the differential run of the ObjectSetters entry, whose checker is below):
            setters of distinct fields commute; after the four setters ID() prints the five set values in the order hZoom/x/y/vZoom/z ---- *)
Theorem C10_setters_commute : forall st c d, (setter_field c < 4)%nat -> (setter_field d < 4)%nat -> setter_field c <> setter_field d ->
  apply_setter (apply_setter st c) d = apply_setter (apply_setter st d) c.
Proof. exact setters_commute. Qed.
Print Assumptions C10_setters_commute.
Theorem C10_ID_after_setters : forall st h x y v z,
  let o := apply_setter (apply_setter (apply_setter (apply_setter st (SZ z)) (SY y)) (SX x)) (SZoom h v) in
  o = mk h x y v z /\ print_eid o = join [print h; print x; print y; print v; print z] /\ field_params o = [h; x; y; v; z].
Proof. exact ID_after_setters. Qed.
Print Assumptions C10_ID_after_setters.
Theorem C10_checker_setters : forall l obs, check_setters l obs = true <-> Forall2 setter_step_spec (run_setters zero_eid l) obs.
Proof. exact check_setters_sound. Qed.
Print Assumptions C10_checker_setters.
Theorem C10_setters_hold_of_model : forall l, all_fields_ok l ->
  Forall2 setter_step_spec (run_setters zero_eid l)
          (map (fun o => (fst o, print_eid (snd o), field_params (snd o), field_params (snd o))) (run_setters zero_eid l)).
Proof. exact setters_model_spec. Qed.
Print Assumptions C10_setters_hold_of_model.

(* get-set and frame laws, ON THE MODEL: a getter after its own setter returns the value set, every other getter is unchanged *)
Theorem C10_get_set_and_frame_laws : forall st x y z h v,
  let gx := apply_setter st (SX x) in let gy := apply_setter st (SY y) in let gz := apply_setter st (SZ z) in let gm := apply_setter st (SZoom h v) in
  (ex gx = x /\ eh gx = eh st /\ ey gx = ey st /\ ev gx = ev st /\ ef gx = ef st) /\
  (ey gy = y /\ eh gy = eh st /\ ex gy = ex st /\ ev gy = ev st /\ ef gy = ef st) /\
  (ef gz = z /\ eh gz = eh st /\ ex gz = ex st /\ ey gz = ey st /\ ev gz = ev st) /\
  (eh gm = h /\ ev gm = v /\ ex gm = ex st /\ ey gm = ey st /\ ef gm = ef st).
Proof. exact get_set_frame. Qed.
Print Assumptions C10_get_set_and_frame_laws.
(* the record after step k of a constructor/setter script is the fold of the first k+1 commands over the start record; the checker below
   demands that ID(), FieldParams() and the five getters of the real object read back exactly that record after every step *)
Theorem C10_state_after_script : forall st l k o, nth_error (run_setters st l) k = Some o -> snd o = fold_left apply_setter (firstn (S k) l) st.
Proof. exact state_after_script. Qed.
Print Assumptions C10_state_after_script.

(* ---- 12. two parses never alias: the string is parsed twice (objects A, B), a script runs on A, the string is parsed a third time (C).
            On the model every parse yields a fresh record, so B and C are the parsed record whatever the script did to A; the run-time
            checker demands exactly that of the real objects (a constructor handing out a cached pointer fails it) ---- *)
Theorem C10_two_parses_do_not_alias : forall s l i, parse_eid s = Some i -> alias_model s l = Some (fold_left apply_setter l i, i, i).
Proof. exact alias_untouched. Qed.
Print Assumptions C10_two_parses_do_not_alias.
Theorem C10_checker_aliasing : forall s l obs, check_alias s l obs = true <-> alias_spec s l obs.
Proof. exact check_alias_sound. Qed.
Print Assumptions C10_checker_aliasing.
Theorem C10_aliasing_holds_of_model : forall s l, all_fields_ok l ->
  alias_spec s l (match alias_model s l with Some (a, b, c) => Some (rb_of a, rb_of b, rb_of c) | None => None end).
Proof. exact alias_model_spec. Qed.
Print Assumptions C10_aliasing_holds_of_model.

(* ---- 13. the delimiter: the "/" at which the parser model splits and the printer model joins is the constant consts.SpatialIDDelimiter of
            the Go code, regenerated from /repo on every run (an edit of that constant breaks this obligation) ---- *)
Theorem C10_delimiter_is_the_generated_constant :
  bytes_to_string Generated.SpatialIDDelimiter = String slash EmptyString /\
  Generated.SpatialIDDelimiter = [Z.of_nat (nat_of_ascii slash)] /\
  (forall i, print_eid i = String.concat (bytes_to_string Generated.SpatialIDDelimiter)
                                        [print (eh i); print (ex i); print (ey i); print (ev i); print (ef i)]) /\
  (forall l, join l = String.concat (bytes_to_string Generated.SpatialIDDelimiter) l).
Proof. exact delimiter_is_generated. Qed.
Print Assumptions C10_delimiter_is_the_generated_constant.

(* ---- 14. the string layer Str.v, declaratively (theories/StrSpec.v; nothing in Str.v was changed). Rules taken from Go 1.23
            src/strconv/atoi.go: ParseInt(s, 10, 64) strips ONE leading '+' or '-', then requires one or more bytes '0'..'9' (underscores only
            when base = 0, which /repo never uses), and the value must fit int64; strconv.Atoi(s) = ParseInt(s, 10, 0) with int = int64 here.
            These theorems are about the model; the tie to the real strconv/strings functions is the differential run of the entries
            ParseInt, Atoi, FormatInt, Itoa, Split, Join (DC10.v), whose checkers are the last four theorems ---- *)
(* Str.parse s = Some z  iff  s = sign ++ body with sign one of "", "+", "-", body one or more bytes 48..57, z = the signed decimal value
   of body read most significant digit first, and -2^63 <= z < 2^63 *)
Theorem C10_Str_parse_is_ParseInt_language : forall s z, parse s = Some z <-> ParseInt_accepts s z.
Proof. exact parse_spec. Qed.
Print Assumptions C10_Str_parse_is_ParseInt_language.
Theorem C10_Str_parse_rejects_everything_else : forall s, parse s = None <-> forall z, ~ ParseInt_accepts s z.
Proof. exact parse_rejects. Qed.
Print Assumptions C10_Str_parse_rejects_everything_else.
(* Str.parse is the left-to-right reference scanner (optional sign, digit loop, range check) *)
Theorem C10_Str_parse_is_reference_scanner : forall s, parse s = parse_ref s.
Proof. exact parse_is_ref. Qed.
Print Assumptions C10_Str_parse_is_reference_scanner.
(* the digit bytes are exactly 48..57 with value byte - 48 (full-width or Arabic-Indic digits are multi-byte and rejected) *)
Theorem C10_digit_bytes : forall c k, digit_val c = Some k <-> (48 <= nat_of_ascii c <= 57)%nat /\ k = Z.of_nat (nat_of_ascii c) - 48.
Proof. exact digit_val_spec. Qed.
Print Assumptions C10_digit_bytes.
(* Str.print z is canonical for every integer: "0", or a digit 1..9 followed by digits, optionally preceded by "-" *)
Theorem C10_Str_print_is_canonical : forall z, canonical (print z).
Proof. exact print_canonical. Qed.
Print Assumptions C10_Str_print_is_canonical.
Theorem C10_Str_print_injective : forall a b, print a = print b -> a = b.
Proof. exact print_inj. Qed.
Print Assumptions C10_Str_print_injective.
(* the canonical spelling of a value is unique: a canonical string that parses to z is print z; hence every accepted string is print z or
   a non-canonical spelling of z (a '+', leading zeros, "-0") *)
Theorem C10_canonical_spelling_is_print : forall s z, canonical s -> parse s = Some z -> s = print z.
Proof. exact canonical_parse_print. Qed.
Print Assumptions C10_canonical_spelling_is_print.
Theorem C10_parsed_string_is_print_or_noncanonical : forall s z, parse s = Some z -> s = print z \/ ~ canonical s.
Proof. exact parse_print_or_noncanonical. Qed.
Print Assumptions C10_parsed_string_is_print_or_noncanonical.
Theorem C10_Str_parse_of_print : forall z, int64_ok z = true -> parse (print z) = Some z.
Proof. exact parse_print. Qed.
Print Assumptions C10_Str_parse_of_print.
(* Split / Join *)
Theorem C10_join_of_split_is_identity : forall s, join (split s) = s.
Proof. exact join_split_id. Qed.
Print Assumptions C10_join_of_split_is_identity.
Theorem C10_split_of_join_is_identity : forall l, l <> [] -> forallb noslash l = true -> split (join l) = l.
Proof. exact split_join. Qed.
Print Assumptions C10_split_of_join_is_identity.
Theorem C10_split_field_count : forall s, length (split s) = S (count_slash s).
Proof. exact split_length. Qed.
Print Assumptions C10_split_field_count.
Theorem C10_split_never_empty : forall s, split s <> [].
Proof. exact split_nonempty. Qed.
Print Assumptions C10_split_never_empty.
Theorem C10_split_fields_have_no_slash : forall s, forallb noslash (split s) = true.
Proof. exact split_fields_no_slash. Qed.
Print Assumptions C10_split_fields_have_no_slash.
(* run-time checkers of the six direct entries *)
Theorem C10_checker_ParseInt : forall s obs, check_parseint s obs = true <->
  match obs with Some z => ParseInt_accepts s z | None => forall z, ~ ParseInt_accepts s z end.
Proof. exact check_parseint_sound. Qed.
Print Assumptions C10_checker_ParseInt.
Theorem C10_checker_FormatInt : forall z s, int64_ok z = true -> check_format z s = true <-> s = print z.
Proof. exact check_format_sound. Qed.
Print Assumptions C10_checker_FormatInt.
Theorem C10_checker_Split : forall s o, check_split s o = true <-> o = split s.
Proof. exact check_split_sound. Qed.
Print Assumptions C10_checker_Split.
Theorem C10_checker_Join : forall l o, check_join l o = true <-> o = join l.
Proof. exact check_join_sound. Qed.
Print Assumptions C10_checker_Join.

(* ---- non-vacuity and witnesses ---- *)
(* both round trips on concrete lists with x <> y <> f, negative f, duplicates *)
Example C10_nonvacuous_round_trips :
  sids_to_eids ["5/-3/7/9"; "0/0/0/0"; "5/-3/7/9"] = Ok ["5/7/9/5/-3"; "0/0/0/0/0"; "5/7/9/5/-3"]%string /\
  eids_to_sids ["5/7/9/5/-3"; "0/0/0/0/0"; "5/7/9/5/-3"] = Ok ["5/-3/7/9"; "0/0/0/0"; "5/-3/7/9"]%string /\
  eids_to_sids ["6/24/53/7/-2"] = Ok ["6/-2/24/53"]%string /\ sids_to_eids ["6/-2/24/53"] = Ok ["6/24/53/6/-2"]%string /\
  sids_to_eids ["5/-3/7/9"; "5/7/9/5/-3"] = Err /\ eids_to_sids ["5/-3/7/9"] = Err.
Proof. vm_compute. repeat split; reflexivity. Qed.
(* "+1", "007", "-0" are accepted and normalised *)
Example C10_nonvacuous_normalisation :
  parse_eid "+1/007/-0/+0012/-05" = Some (mk 1 7 0 12 (-5)) /\ print_eid (mk 1 7 0 12 (-5)) = "1/7/0/12/-5"%string.
Proof. vm_compute. split; reflexivity. Qed.
(* the three branches of the expansion (examples of the Go doc comment and a negative vertical index) *)
Example C10_nonvacuous_expansion :
  valid (mk 6 24 49 7 0) /\ expand_eid (mk 6 24 49 7 0) = ["7/0/48/98"; "7/0/48/99"; "7/0/49/98"; "7/0/49/99"]%string /\
  valid (mk 7 24 53 6 (-3)) /\ expand_eid (mk 7 24 53 6 (-3)) = ["7/-6/24/53"; "7/-5/24/53"]%string /\
  expand_eid (mk 6 24 49 6 0) = ["6/0/24/49"]%string /\ length (expand_eid (mk 3 7 7 8 (-256))) = 1024%nat.
Proof. repeat split; try (unfold valid; cbn; lia); vm_compute; reflexivity. Qed.
(* when the zooms differ, ConvertExtendedSpatialIdsToSpatialIds silently returns an ID of a different region (the lossless conversion is the expansion) *)
Example C10_zoom_dropping_changes_region :
  let i := mk 3 1 1 5 7 in
  valid i /\ eid_to_sid_str (print_eid i) = Some "3/7/1/1"%string /\ parse_sid "3/7/1/1" = Some (mk 3 1 1 3 7) /\
  forall p, inR i p -> ~ inR (mk 3 1 1 3 7) p.
Proof. exact e2s_changes_region_when_zooms_differ. Qed.
Example C10_voxel_id_examples :
  voxel_id "25/29803148/13212522/25/-7" = [29803148; 13212522; -7] /\
  voxel_id "1/x/99999999999999999999/1/-99999999999999999999/9/9" = [0; 2 ^ 63 - 1; - 2 ^ 63] /\ voxel_id "1/2/3/4" = [] /\
  voxel_id "1/99999999999999999999x/-99999999999999999999 /1/18446744073709551616_" = [2 ^ 63 - 1; - 2 ^ 63; 2 ^ 63 - 1] /\
  voxel_id "1/18446744073709551615x/9223372036854775808x/1/9223372036854775808" = [0; 0; 2 ^ 63 - 1].
Proof. vm_compute. repeat split; reflexivity. Qed.
(* x, y beyond 2^31 at zoom 35 and vertical indices near the ends of the grid / of int64 survive parse-then-print *)
Example C10_nonvacuous_wide_fields :
  valid (mk 35 34359738367 34359738367 35 (-7)) /\ new_eid "35/34359738367/34359738367/35/-7" = Ok (mk 35 34359738367 34359738367 35 (-7)) /\
  print_eid (mk 35 4294967301 17 20 3) = "35/4294967301/17/20/3"%string /\
  print_eid (apply_setter (apply_setter zero_eid (SX 8589934601)) (SZ (- 2 ^ 62))) = "0/8589934601/0/0/-4611686018427387904"%string.
Proof. split; [unfold valid; cbn; lia|]. vm_compute. repeat split; reflexivity. Qed.
(* a script with a constructor in the middle, and the aliasing model: the untouched parses keep the parsed record *)
Example C10_nonvacuous_script_and_aliasing :
  map snd (run_setters zero_eid [SNew "3/1/2/4/-5"; SX 7; SNew "3/1/2/4/-5"; SZoom 9 8; SReset "x"; SNew "bad"])
    = [mk 3 1 2 4 (-5); mk 3 7 2 4 (-5); mk 3 1 2 4 (-5); mk 9 1 2 8 (-5); mk 9 1 2 8 (-5); mk 0 0 0 0 0] /\
  alias_model "3/1/2/4/-5" [SX 7; SZ 0] = Some (mk 3 7 2 4 0, mk 3 1 2 4 (-5), mk 3 1 2 4 (-5)) /\
  String.concat (bytes_to_string Generated.SpatialIDDelimiter) ["3"; "1"; "2"; "4"; "-5"]%string = "3/1/2/4/-5"%string.
Proof. vm_compute. repeat split; reflexivity. Qed.
(* the accepted language: witnesses on both sides *)
Example C10_nonvacuous_ParseInt_language :
  ParseInt_accepts "+007" 7 /\ ParseInt_accepts "-0" 0 /\ ParseInt_accepts "-9223372036854775808" (- 2 ^ 63) /\
  map parse [""; "+"; "-"; "+-1"; "--1"; " 1"; "1 "; "0x10"; "1_0"; "9223372036854775808"; "-9223372036854775809"; "1.0"; "1e3"]%string
    = [None; None; None; None; None; None; None; None; None; None; None; None; None] /\
  parse "000000000000000000000000000009223372036854775807" = Some (2 ^ 63 - 1) /\
  canonical "0" /\ canonical "-12" /\ ~ canonical "+1" /\ ~ canonical "007" /\ ~ canonical "-0" /\
  split "/1//2/" = [""; "1"; ""; "2"; ""]%string /\ split "" = [""]%string /\ count_slash "/1//2/" = 4%nat.
Proof.
  repeat split; try (vm_compute; reflexivity); try (apply parse_spec; vm_compute; reflexivity);
    try (apply canonicalb_spec; vm_compute; reflexivity);
    try (intros C; apply canonicalb_spec in C; vm_compute in C; discriminate).
Qed.

(* ---- the caller's object survives the expansion (entry ExpandObject, DC10.d_expand_object): the run-time entry expands ONE parsed object,
   reads it back and expands it again; it accepts the observation only if both results are accepted as the plain expansion of the argument
   string and the object read back in between is accepted as the plain parse/print of it (so: same ID(), same accessors, same FieldParams,
   and the second call returns the same voxels). Any other observed shape (error, refused size) is judged by the plain entry. ---- *)
From SID Require Wire DC10.
Theorem C10_expand_object_entry_accepts_only_unchanged_objects : forall s l1 id acc fp l2,
  Wire.v_prop (DC10.d_expand_object [Wire.VS s] (Wire.VL [Wire.VL l1; Wire.VL [Wire.VS id; acc; fp]; Wire.VL l2])) = true ->
  Wire.v_prop (DC10.d_expand [Wire.VS s] (Wire.VL l1)) = true /\
  Wire.v_prop (DC10.d_parseprint [Wire.VS s] (Wire.VL [Wire.VS id; acc; fp])) = true /\
  Wire.v_prop (DC10.d_expand [Wire.VS s] (Wire.VL l2)) = true.
Proof. exact DC10.expand_object_accepts_only_unchanged_objects. Qed.
Print Assumptions C10_expand_object_entry_accepts_only_unchanged_objects.
Theorem C10_expand_object_entry_other_shapes_are_the_plain_entry : forall s obs,
  (forall l1 id acc fp l2, obs <> Wire.VL [Wire.VL l1; Wire.VL [Wire.VS id; acc; fp]; Wire.VL l2]) ->
  DC10.d_expand_object [Wire.VS s] obs = DC10.d_expand [Wire.VS s] obs.
Proof. exact DC10.expand_object_other_shapes. Qed.
Print Assumptions C10_expand_object_entry_other_shapes_are_the_plain_entry.

(* ---- the integer kernels of the expansion with Go's int64 semantics explicit (generated/Generated64.v, theories/GenC10.v): on every valid
   ID no panic, no wrap, value = the model's bounds; a computed wrap witness just outside the grid ---- *)
From SIDGen Require Generated64.
Theorem C10_int64_expansion_kernels_fit_on_valid_ids : forall i, valid i ->
  Generated64.HorizontalZoomMinMax (eh i) (Ids.ex i) (ey i) (ev i) = Some (ZoomCore.hzoom_minmax (eh i) (Ids.ex i) (ey i) (ev i), true) /\
  Generated64.VerticalZoom_minmax (ev i) (ef i) (eh i) = Some (ZoomCore.vzoom_minmax (ev i) (ef i) (eh i), true).
Proof. exact int64_expansion_kernels_fit_on_valid_ids. Qed.
Print Assumptions C10_int64_expansion_kernels_fit_on_valid_ids.
Example C10_int64_expansion_wraps_outside_the_grid :
  Generated64.HorizontalZoomMinMax 0 (2 ^ 62) 0 2 = Some ((0, 0, 3, 3), false) /\
  Generated.HorizontalZoomMinMax 0 (2 ^ 62) 0 2 = (2 ^ 64, 0, 2 ^ 64 + 3, 3).
Proof. exact int64_expansion_wraps_outside_the_grid. Qed.
