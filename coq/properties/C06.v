(* C06 — A line is voxelised without gaps, onto voxels the segment really touches.
   Only statements, `exact` proofs and Print Assumptions live here. Models and proofs: theories/Line.v (abstract model of
   shape/line.go over the oracles vox_top / vox_in / mid / small, and its executable float instance), theories/LineA1.v
   (assumption A1 per axis at the real level), theories/LineCheck.v (the run-time checker and its soundness).
   Level: proof ON THE MODEL (a Gallina transcription of shape/line.go, tied to the Go code by differential execution only) for
   EVERY oracle, conditional on the run returning (`Some l`: fuel 64 not exhausted — not proved, and false for the Go code on
   altitudes >= 2^43 where it does not terminate). The chain theorem for the float model is PARTIAL: it holds for runs whose
   visited nodes pass a decidable A1/A2 check (reported by every harness case; proved for the exact real-number index functions
   only) and outside the finding class retruncation_unstable_endpoint (D14), which is refuted with a witness. No theorem says that
   a returned voxel intersects the segment: that clause is validated at run time by the slab test only. *)
From Coq Require Import ZArith String List Lia Floats QArith Reals Lra.
From SID Require Import Base Str Ids Shift Wire F64 PointF Line LineA1 LineCheck DC06.
Import ListNotations.
Close Scope Q_scope.
Close Scope R_scope.
Open Scope Z_scope.

(* ---------- for every oracle (voxel functions, midpoint, threshold test), every fuel ---------- *)

(* no ID is returned twice *)
Theorem C06_no_duplicates : forall (P : Type) (vox_top vox_in : P -> eid) (mid : P -> P -> P) (small : P -> P -> bool)
  fuel s e l, line_ids P vox_top vox_in mid small fuel s e = Some l -> NoDup l.
Proof. exact line_NoDup. Qed.
Print Assumptions C06_no_duplicates.

(* the voxels of both end points (as GetExtendedSpatialIdsOnPoints computes them for the caller's points) are returned *)
Theorem C06_end_voxels_present : forall (P : Type) (vox_top vox_in : P -> eid) mid small fuel s e l,
  line_ids P vox_top vox_in mid small fuel s e = Some l -> In (vox_top s) l /\ In (vox_top e) l.
Proof. exact line_ends. Qed.
Print Assumptions C06_end_voxels_present.

(* both end points in one voxel: the result is that single ID (whatever the fuel: the recursion is not entered) *)
Theorem C06_single_voxel : forall (P : Type) (vox_top vox_in : P -> eid) mid small fuel s e,
  vox_top s = vox_top e -> line_ids P vox_top vox_in mid small fuel s e = Some [vox_top s].
Proof. exact line_single. Qed.
Print Assumptions C06_single_voxel.

(* nothing else is returned: an ID is an end voxel or was emitted by the midpoint recursion *)
Theorem C06_members : forall (P : Type) (vox_top vox_in : P -> eid) mid small fuel s e l,
  line_ids P vox_top vox_in mid small fuel s e = Some l ->
  forall v, In v l <-> v = vox_top s \/ v = vox_top e \/
                       (vox_top s <> vox_top e /\ exists r, mids P vox_in mid small fuel s e = Some r /\ In v r).
Proof. exact line_members. Qed.
Print Assumptions C06_members.

(* every emitted voxel is the recursion's voxel (vox_in: the point is stored once more first, i.e. its latitude is cut by SetLat
   again) of the `mid` of a piece (a, b) obtained from the segment by repeatedly replacing a piece by one of its halves *)
Theorem C06_emitted_voxels_are_voxels_of_piece_midpoints : forall (P : Type) (vox_in : P -> eid) mid small s e fuel l,
  mids P vox_in mid small fuel s e = Some l ->
  forall v, In v l -> exists a b k n, sub mid s e a b k n /\ v = vox_in (mid a b).
Proof. intros P vox_in mid small s e fuel l. exact (mids_sub P vox_in mid small s e fuel s e 0 O l (sub0 mid s e)). Qed.
Print Assumptions C06_emitted_voxels_are_voxels_of_piece_midpoints.
(* the same for the float model: the voxel of the re-stored FLOAT midpoint start + 0.5 * (end - start) of a piece. The float
   midpoint is not the exact midpoint (rounding), and the voxel is taken after one more SetLat cut (up to 1e-10 degrees), so this
   does NOT say that the voxel meets the straight segment (it can miss it by a row: classes retruncation_unstable_endpoint,
   setlat_cut_row_shift). *)
Theorem C06_float_model_emits_voxels_of_float_midpoints : forall m_tan m_cos m_log h v s e l,
  mids point (vox_in_pt m_tan m_cos m_log h v) mid_pt (small_pt (thresholds h v)) line_fuel s e = Some l ->
  forall i, In i l -> exists a b k n, sub mid_pt s e a b k n /\ i = vox_in_pt m_tan m_cos m_log h v (mid_pt a b).
Proof. intros m_tan m_cos m_log h v s e. exact (C06_emitted_voxels_are_voxels_of_piece_midpoints point _ mid_pt _ s e line_fuel). Qed.
Print Assumptions C06_float_model_emits_voxels_of_float_midpoints.
(* IDEAL midpoints only (NOT satisfied by the float mid_pt on any coordinate): if `mid` is the exact midpoint for a coordinate c,
   the midpoint of piece k at level n is the interpolation point of parameter (2k+1)/2^(n+1), the same on every such coordinate *)
Theorem C06_ideal_piece_midpoints_are_dyadic_interpolation_points : forall (P : Type) (mid : P -> P -> P) (c : P -> Q),
  (forall a b, (c (mid a b) == (c a + c b) / 2)%Q) ->
  forall s e a b k n, sub mid s e a b k n ->
  (c (mid a b) == c s + (inject_Z (2 * k + 1) / inject_Z (2 ^ Z.of_nat (S n))) * (c e - c s))%Q /\
  0 < 2 * k + 1 < 2 ^ Z.of_nat (S n).
Proof. exact sub_mid_coord. Qed.
Print Assumptions C06_ideal_piece_midpoints_are_dyadic_interpolation_points.

(* chain theorem, general form: for any notion `adj` of touching such that
   A1 — below the thresholds start, midpoint and end voxels touch, and
   A2 — whenever the code's face-neighbour test accepts the midpoint's voxel next to an end voxel the two touch,
   and if storing an end point again does not move it to another voxel (stable), then every returned voxel is reachable from
   the start voxel through touching returned voxels: one connected chain from the start voxel to the end voxel, no gaps *)
Theorem C06_chain : forall (P : Type) (vox_top vox_in : P -> eid) mid small (adj : eid -> eid -> Prop),
  (forall s e, near (vox_in s) (vox_in (mid s e)) = true -> adj (vox_in s) (vox_in (mid s e))) ->
  (forall s e, near (vox_in e) (vox_in (mid s e)) = true -> adj (vox_in (mid s e)) (vox_in e)) ->
  (forall s e, small s e = true -> adj (vox_in s) (vox_in (mid s e)) /\ adj (vox_in (mid s e)) (vox_in e)) ->
  forall fuel s e l, vox_in s = vox_top s -> vox_in e = vox_top e ->
  line_ids P vox_top vox_in mid small fuel s e = Some l ->
  forall v, In v l -> reach adj l (vox_top s) v.
Proof. exact line_connected. Qed.
Print Assumptions C06_chain.

(* with touching read as the code's own neighbour test reads it (26-adjacency with x and y modulo 2^h) A2 is a theorem:
   only A1 and stability are assumed *)
Theorem C06_chain_modular_adjacency : forall (P : Type) (vox_top vox_in : P -> eid) mid small h,
  0 <= h -> (forall p, eh (vox_in p) = h) ->
  (forall s e, small s e = true -> adj26 (vox_in s) (vox_in (mid s e)) /\ adj26 (vox_in (mid s e)) (vox_in e)) ->
  forall fuel s e l, vox_in s = vox_top s -> vox_in e = vox_top e ->
  line_ids P vox_top vox_in mid small fuel s e = Some l ->
  forall v, In v l -> reach adj26 l (vox_top s) v.
Proof. exact line_connected_torus. Qed.
Print Assumptions C06_chain_modular_adjacency.

(* ---------- the float model of the exported functions ---------- *)

(* (definitional; the tie to the Go function is the run-time comparison only) valid zooms, non-nil points: the model of the API
   returns the printed IDs of the abstract model instantiated with the bit-exact float
   functions (midpoint, thresholds by zoom with the switches h >= 31 / v >= 34, x, f, SetLat) and the oracle row *)
Theorem C06_model_api_unfolds_to_abstract_model : forall m_tan m_cos m_log s e h v, check_zoom h = true -> check_zoom v = true ->
  line_api m_tan m_cos m_log false s e h v =
  match line_ids_pt m_tan m_cos m_log h v s e with Some l => Ok (map print_eid l) | None => Err end.
Proof. exact line_api_model. Qed.
Print Assumptions C06_model_api_unfolds_to_abstract_model.
(* a nil point or a zoom outside 0..35 is an error *)
Theorem C06_api_errors : forall m_tan m_cos m_log has_nil s e h v,
  has_nil = true \/ check_zoom h = false \/ check_zoom v = false -> line_api m_tan m_cos m_log has_nil s e h v = Err.
Proof. exact line_api_errors. Qed.
Print Assumptions C06_api_errors.

(* PARTIAL (float model, every oracle). `line_run` is the executed model; its flag says that every node the recursion visited
   passed the A1/A2 check for plain 26-adjacency with end points at longitude 180 folded (A1: a node that stops below the
   thresholds has start, midpoint, end voxels touching; A2: a face neighbour in the code's wrapping test is a real neighbour).
   If the flag is true and no end point is in the finding class, the returned set is one connected chain.
   Missing for a full theorem: that the flag is true for all inputs of the domain (observed on every harness case and reported;
   A1 is proved below for the exact real-number index functions only) and that fuel 64 suffices. *)
Theorem C06_float_model_connected_checked_partial : forall m_tan m_cos m_log h v s e l d,
  line_run m_tan m_cos m_log h v s e = Some (l, d, true) ->
  unstable_endpoint m_tan m_cos m_log h v s = false -> unstable_endpoint m_tan m_cos m_log h v e = false ->
  forall i, In i l -> reach (adjF (folds_pt m_tan m_cos m_log h v s e)) l (vox_top_pt m_tan m_cos m_log h v s) i.
Proof. exact line_pt_checked_connected. Qed.
Print Assumptions C06_float_model_connected_checked_partial.
(* the hypotheses hold for real segments (equator: the only libm answers needed are Tan 0 = 0, Cos 0 = 1, Log 1 = 0):
   (10,0,-3)-(10.5,0,40) at h = 12, v = 22, and (179.9,0,5)-(180,0,5) at h = 14, v = 3, which ends on the folded meridian *)
Example C06_checked_partial_nonvacuous_1 :
  exists l d, line_run eq_tan eq_cos eq_log 12 22 eq_s1 eq_e1 = Some (l, d, true) /\ (10 < List.length l)%nat /\
  unstable_endpoint eq_tan eq_cos eq_log 12 22 eq_s1 = false /\ unstable_endpoint eq_tan eq_cos eq_log 12 22 eq_e1 = false.
Proof. exact eq_run1. Qed.
Example C06_checked_partial_nonvacuous_2 :
  exists l d, line_run eq_tan eq_cos eq_log 14 3 eq_s2 eq_e2 = Some (l, d, true) /\
  In (mk 14 0 8192 3 0) l /\ In (mk 14 16383 8192 3 0) l /\
  unstable_endpoint eq_tan eq_cos eq_log 14 3 eq_s2 = false /\ unstable_endpoint eq_tan eq_cos eq_log 14 3 eq_e2 = false.
Proof. exact eq_run2. Qed.

(* ---------- A1 at the level of real numbers: thresholds against cell sizes, all zooms 0..35.
   These are about the exact index functions Xr / Yr / Fr (no fold of longitude 180, no clamp, no SetLat cut) and the exact
   midpoint; they are NOT connected by a theorem to the float functions of the model ---------- *)
Open Scope R_scope.
(* longitude: spans below LonMinima (h <= 30) / HightZoomLonMinima (h >= 31) keep start, midpoint and end columns adjacent *)
Theorem C06_A1_longitude : forall h s e, (0 <= h <= 35)%Z -> Rabs (e - s) < thr_lon h ->
  (-1 <= Xr h ((s + e) / 2) - Xr h s <= 1)%Z /\ (-1 <= Xr h e - Xr h ((s + e) / 2) <= 1)%Z.
Proof. exact A1_lon. Qed.
Print Assumptions C06_A1_longitude.
(* altitude: spans below AltMinima (v <= 33) / HightZoomAltMinima (v >= 34) *)
Theorem C06_A1_altitude : forall v s e, (0 <= v <= 35)%Z -> Rabs (e - s) < thr_alt v ->
  (-1 <= Fr v ((s + e) / 2) - Fr v s <= 1)%Z /\ (-1 <= Fr v e - Fr v ((s + e) / 2) <= 1)%Z.
Proof. exact A1_alt. Qed.
Print Assumptions C06_A1_altitude.
(* latitude, on the documented domain |lat| <= 85.0511287798: mean-value bound for the Mercator northing (1/cos <= 11.6) *)
Theorem C06_A1_latitude : forall h s e m, (0 <= h <= 35)%Z -> Rabs s <= lat_max -> Rabs e <= lat_max ->
  Rabs (e - s) < thr_lat h -> Rmin s e <= m <= Rmax s e ->
  (-1 <= Yr h m - Yr h s <= 1)%Z /\ (-1 <= Yr h e - Yr h m <= 1)%Z.
Proof. exact A1_lat. Qed.
Print Assumptions C06_A1_latitude.
(* all three axes together: below the six thresholds the exact voxels of start, exact midpoint and end are equal or plain
   26-neighbours — assumption A1 of the chain theorem, for the real-number index functions, every zoom pair in 0..35 x 0..35 *)
Theorem C06_A1_real : forall h v ls ps zs le pe ze, (0 <= h <= 35)%Z -> (0 <= v <= 35)%Z ->
  Rabs ps <= lat_max -> Rabs pe <= lat_max ->
  Rabs (le - ls) < thr_lon h -> Rabs (pe - ps) < thr_lat h -> Rabs (ze - zs) < thr_alt v ->
  adjP (voxR h v ls ps zs) (voxR h v ((ls + le) / 2) ((ps + pe) / 2) ((zs + ze) / 2)) /\
  adjP (voxR h v ((ls + le) / 2) ((ps + pe) / 2) ((zs + ze) / 2)) (voxR h v le pe ze).
Proof. exact A1_real. Qed.
Print Assumptions C06_A1_real.
Close Scope R_scope.

(* ---------- finding class retruncation_unstable_endpoint (D14) ---------- *)
(* SetLat is not idempotent: the stored latitude -80.7500753463 (bits c05430013c06793d) becomes -80.7500753462 when stored again *)
Theorem C06_setlat_not_idempotent :
  feqb_bits (setlat_trunc d14_lat) d14_lat2 = true /\ (d14_lat2 =? d14_lat)%float = false.
Proof. exact setlat_not_idempotent. Qed.
Print Assumptions C06_setlat_not_idempotent.
(* with Go's math.Tan/Cos/Log answers for these two latitudes the stored start point of the D14 segment is in the class:
   row 15465462393 at the top level, row 15465462392 inside the recursion (h = 34) *)
Theorem C06_D14_witness_in_class : unstable_endpoint d14_tan d14_cos d14_log 34 6 d14_start = true.
Proof. exact D14_in_class. Qed.
Print Assumptions C06_D14_witness_in_class.
(* REFUTED: without endpoint stability the chain property fails although A1 holds — a start point whose top-level voxel is one
   row further out than its voxel inside the recursion is left isolated (row 7 | rows 5..1; row 6 is never emitted) *)
Theorem C06_unstable_endpoint_refuted :
  exists l, line_ids Z toy_top toy_in toy_mid toy_small line_fuel 6 1 = Some l /\
            (forall a b, toy_small a b = true ->
               adj26 (toy_in a) (toy_in (toy_mid a b)) /\ adj26 (toy_in (toy_mid a b)) (toy_in b)) /\
            stable Z toy_top toy_in 1 /\ ~ stable Z toy_top toy_in 6 /\
            In (toy_top 1) l /\ ~ reach adj26 l (toy_top 6) (toy_top 1).
Proof. exact unstable_endpoint_refuted. Qed.
Print Assumptions C06_unstable_endpoint_refuted.

(* ---------- the run-time checker applied to the implementation's ID set ---------- *)
(* acceptance implies the property's statement on the observed set: no duplicates, requested zooms, both end voxels, single ID
   when the ends share a voxel, every voxel passes the slab test, every voxel reachable from the start voxel under plain
   26-adjacency plus the cyclic identification of longitude on the meridian 180 = -180: the voxels `folds` of column 0 touch the
   last column. At run time folds = LineCheck.meridian_folds = the observed voxels of column 0 that the segment meets AT longitude
   180 within the rounding band tol_lon = 2^-38 degrees (turn k = 1 of the slab test): an end point at exactly 180 (which the code
   folds onto -180) or float midpoints that round to 180.0. This is the same band by which, at every other column boundary, a
   midpoint that rounds onto the boundary is accepted in the next column. A segment that does not come within the band of 180
   gets plain adjacency (no wrap-around). *)
Theorem C06_checker_sound : forall vs ve folds slab h v obs,
  check_line vs ve folds slab h v obs = true ->
  NoDup obs /\ (forall i, In i obs -> eh i = h /\ ev i = v) /\ In vs obs /\ In ve obs /\ (vs = ve -> obs = [vs]) /\
  (forall i, In i obs -> slab i = true) /\ (forall i, In i obs -> reach (adjF folds) obs vs i).
Proof. exact check_line_sound. Qed.
Print Assumptions C06_checker_sound.

(* what the slab test accepts: for a turn k in {0,1} (k = 1: the code's fold of longitude 180 onto -180) there is a parameter
   interval [t0,t1] within [0,1] on which the linearly interpolated longitude lies in the box of column x and the altitude in
   the box of index f (exact rational arithmetic on the floats' values, boxes widened by tol_lon = 2^-38 degrees and
   tol_alt = 2^-44 relative), and the voxel's row lies between the code's own rows of the two extreme latitudes of that
   interval widened by tl (run time: tl = tol_lat0 = 2^-40 degrees for the verdict; tl = tol_lat = 2^-33 degrees only to classify
   what the SetLat cut of up to 1e-10 degrees explains). The latitude part rests on the code's own row function. *)
Theorem C06_slab_test_meaning : forall rowf tl g h v i, slab_voxel rowf tl g h v i = true ->
  exists (k : Z) (t0 t1 : Q), (k = 0 \/ k = 1) /\ (0 <= t0)%Q /\ (t0 <= t1)%Q /\ (t1 <= 1)%Q /\
    (forall t, (t0 <= t <= t1)%Q -> in_lon_box g h (ex i) k t /\ in_alt_box g v (ef i) t) /\
    exists r1 r2,
      rowf (q2f (qmax (at_t (q_ps g) (q_pe g) t0) (at_t (q_ps g) (q_pe g) t1) + tl)%Q) = Some r1 /\
      rowf (q2f (qmin (at_t (q_ps g) (q_pe g) t0) (at_t (q_ps g) (q_pe g) t1) - tl)%Q) = Some r2 /\
      r1 <= ey i <= r2.
Proof. exact slab_voxel_sound. Qed.
Print Assumptions C06_slab_test_meaning.

(* the verdict `prop` the dispatcher returns for a successful observed ID set IS check_line with the strict latitude band
   (and no two equal ID strings): "prop failed" means the proved checker rejected the implementation's output *)
Theorem C06_dispatch_prop_is_the_checker : forall rowf vs ve vis vie folds g h v o ids,
  fst (judge rowf vs ve vis vie folds g h v o ids) =
  (nodup_strings o && check_line vs ve folds (slab_voxel rowf tol_lat0 g h v) h v ids)%bool.
Proof. exact judge_prop. Qed.
Print Assumptions C06_dispatch_prop_is_the_checker.

(* ---------- histories of calls ---------- *)
(* the model has no state: the answer to a call (either exported function, any arguments, valid or not) is the same after ANY
   sequence of earlier calls and before any later ones — the property quantifies over every history, and this is why the harness
   may judge every step of a call sequence exactly like a standalone call *)
Theorem C06_model_answers_do_not_depend_on_history : forall m_tan m_cos m_log (before before' after after' : list lstep) (x : lstep),
  nth_error (history_answers m_tan m_cos m_log (before ++ x :: after)) (List.length before) =
  Some (step_answer m_tan m_cos m_log x) /\
  nth_error (history_answers m_tan m_cos m_log (before ++ x :: after)) (List.length before) =
  nth_error (history_answers m_tan m_cos m_log (before' ++ x :: after')) (List.length before').
Proof. exact history_answers_independent. Qed.
Print Assumptions C06_model_answers_do_not_depend_on_history.
(* the dispatcher's verdict on a step of a LineHistory case is the standalone verdict d_line of that step, whatever precedes it,
   and the case passes exactly when every step passes *)
Theorem C06_step_verdict_does_not_depend_on_history : forall oracle pre opre st o, List.length pre = List.length opre ->
  nth_error (step_verdicts oracle (pre ++ [st]) (opre ++ [o])) (List.length pre) = Some (step_verdict oracle st o).
Proof. exact step_verdict_independent. Qed.
Print Assumptions C06_step_verdict_does_not_depend_on_history.
(* a one-step history gets exactly the standalone verdict AND class of its step *)
Theorem C06_single_step_history_is_the_standalone_verdict : forall v,
  is_class "bad-case" v = false -> is_class "skipped" v = false ->
  (v_prop v = true -> v_class v = "-"%string) -> (v_corr v = false -> v_class v = "-"%string) ->
  v_corr (merge_verdicts [v]) = v_corr v /\ v_prop (merge_verdicts [v]) = v_prop v /\ v_class (merge_verdicts [v]) = v_class v.
Proof. exact merge_single. Qed.
Print Assumptions C06_single_step_history_is_the_standalone_verdict.
Theorem C06_history_passes_iff_every_step_passes : forall vs,
  existsb (is_class "bad-case") vs = false -> existsb (is_class "skipped") vs = false ->
  v_prop (merge_verdicts vs) = forallb v_prop vs.
Proof. exact merge_prop. Qed.
Print Assumptions C06_history_passes_iff_every_step_passes.
(* non-vacuity: valid call, invalid call (vZoom 36), the same valid call: answers [Ok l; Err; Ok l] with more than 10 IDs *)
Example C06_history_nonvacuous : exists l, (10 < List.length l)%nat /\
  history_answers eq_tan eq_cos eq_log [eq_step1; eq_step_bad; eq_step1] = [Ok l; Err; Ok l].
Proof. exact eq_history. Qed.

(* ---------- non-vacuity ---------- *)
(* an oracle satisfying every hypothesis of the chain theorem, with a run that goes through all four branches *)
Definition ex_vox (p : Z) : eid := mk 4 3 p 2 0.
Definition ex_small (a b : Z) : bool := Z.abs (b - a) <=? 1.
Example C06_chain_nonvacuous :
  (forall s e, ex_small s e = true ->
     adj26 (ex_vox s) (ex_vox (toy_mid s e)) /\ adj26 (ex_vox (toy_mid s e)) (ex_vox e)) /\
  line_ids Z ex_vox ex_vox toy_mid ex_small line_fuel 1 12 =
    Some (map ex_vox [1; 12; 6; 3; 2; 4; 5; 9; 7; 8; 10; 11]).
Proof.
  split; [|vm_compute; reflexivity].
  intros s e H. unfold ex_small in H. apply Z.leb_le in H. unfold toy_mid.
  assert (-1 <= (s + e) / 2 - s <= 1 /\ -1 <= e - (s + e) / 2 <= 1).
  { pose proof (Z.div_mod (s + e) 2 ltac:(lia)). pose proof (Z.mod_pos_bound (s + e) 2 ltac:(lia)). lia. }
  split; apply adjP_adj26; unfold adjP, ex_vox, mk; cbn [eh ev ex ey ef]; lia.
Qed.
(* the D14 start latitude is a value NewPoint really stores *)
Example C06_D14_latitude_is_a_stored_value : feqb_bits (setlat_trunc (-80.75007534638786)%float) d14_lat = true.
Proof. exact d14_is_stored. Qed.
(* hypotheses of the real-level A1 theorems are satisfiable at the extreme zoom *)
Example C06_A1_nonvacuous : (Rabs (1 / 1000000000 - 0) < thr_lon 35)%R /\ (Rabs (1 / 10000 - 0) < thr_alt 35)%R.
Proof.
  unfold thr_lon, thr_alt. cbn. split; rewrite Rminus_0_r; rewrite Rabs_pos_eq; lra.
Qed.

(* ---- tie to the source by regeneration (DESIGN.md 4.2): the six termination thresholds and the two zoom switches of shape/line.go,
   read from /repo's current source as exact decimals (m, e) = m * 10^e, are the values the model uses ---- *)
From SIDGen Require Generated.
From SID Require GenEqConstLine LineGen GenC06.
Theorem C06_generated_thresholds_are_the_models :
  (Generated.LonMinima, Generated.LatMinima, Generated.AltMinima) = ((2, -8), (2, -8), (3, -3))%Z /\
  (Generated.HightZoomLonMinima, Generated.HightZoomLatMinima, Generated.HightZoomAltMinima) = ((5, -9), (5, -10), (5, -4))%Z.
Proof. exact GenEqConstLine.gen_line_thresholds_eq. Qed.
Print Assumptions C06_generated_thresholds_are_the_models.
Theorem C06_generated_zoom_switches_are_the_models : (Generated.LineSwitch_hZoom, Generated.LineSwitch_vZoom) = (31, 34)%Z.
Proof. exact GenEqConstLine.gen_line_switches_eq. Qed.
Print Assumptions C06_generated_zoom_switches_are_the_models.
(* ... and the model's own constants are those values: the binary64 literals of Line.v are the correctly rounded doubles of the
   generated decimals, the switches of Line.thresholds and the real thresholds of LineA1 (thr_lon/thr_lat/thr_alt) are the
   generated ones *)
Theorem C06_model_float_constants_are_the_generated_decimals :
  feqb_bits c_lon_min (LineGen.dec2f Generated.LonMinima) = true /\ feqb_bits c_lat_min (LineGen.dec2f Generated.LatMinima) = true /\
  feqb_bits c_alt_min (LineGen.dec2f Generated.AltMinima) = true /\
  feqb_bits c_hz_lon_min (LineGen.dec2f Generated.HightZoomLonMinima) = true /\
  feqb_bits c_hz_lat_min (LineGen.dec2f Generated.HightZoomLatMinima) = true /\
  feqb_bits c_hz_alt_min (LineGen.dec2f Generated.HightZoomAltMinima) = true.
Proof. exact LineGen.line_float_constants_are_generated. Qed.
Print Assumptions C06_model_float_constants_are_the_generated_decimals.
Theorem C06_model_switches_and_real_thresholds_are_the_generated_ones :
  (hz_switch = Generated.LineSwitch_hZoom /\ vz_switch = Generated.LineSwitch_vZoom) /\
  forall h v,
  thr_lon h = (if (Generated.LineSwitch_hZoom <=? h)%Z then LineGen.dec2r Generated.HightZoomLonMinima else LineGen.dec2r Generated.LonMinima) /\
  thr_lat h = (if (Generated.LineSwitch_hZoom <=? h)%Z then LineGen.dec2r Generated.HightZoomLatMinima else LineGen.dec2r Generated.LatMinima) /\
  thr_alt v = (if (Generated.LineSwitch_vZoom <=? v)%Z then LineGen.dec2r Generated.HightZoomAltMinima else LineGen.dec2r Generated.AltMinima).
Proof. exact (conj LineGen.line_switches_are_generated LineGen.line_real_thresholds_are_generated). Qed.
Print Assumptions C06_model_switches_and_real_thresholds_are_the_generated_ones.

(* ---------- the main results over the FLOAT KERNELS REGENERATED from the Go source (generated/GeneratedF.v) ----------
   gen_vox = voxel of a point through GeneratedF.getHorizontalTileIdOnPoint_{lonIndex,latIndex} and getVerticalTileIdOnAltitude_vIndex;
   gen_vox_in = the same after object.NewPoint over GeneratedF.Point_SetLon / Point_SetLat; gen_thresholds = the generated decimals
   and switches; gen_line_ids = the midpoint recursion (hand-transcribed control flow) over these. M : libm = Go's math package. *)
(* the model that is executed and compared with the Go code is the recursion over the regenerated kernels and constants *)
Theorem C06_generated_kernels_give_the_executed_model : forall M h v s e,
  GenC06.gen_line_ids M h v s e = line_ids_pt (GeneratedF.m_tan M) (GeneratedF.m_cos M) (GeneratedF.m_log M) h v s e.
Proof. exact GenC06.gen_line_ids_is_model. Qed.
Print Assumptions C06_generated_kernels_give_the_executed_model.
Theorem C06_generated_no_duplicates : forall M h v s e l, GenC06.gen_line_ids M h v s e = Some l -> NoDup l.
Proof. exact GenC06.gen_line_NoDup. Qed.
Print Assumptions C06_generated_no_duplicates.
Theorem C06_generated_end_voxels_present : forall M h v s e l, GenC06.gen_line_ids M h v s e = Some l ->
  In (GenC06.gen_vox M h v s) l /\ In (GenC06.gen_vox M h v e) l.
Proof. exact GenC06.gen_line_ends. Qed.
Print Assumptions C06_generated_end_voxels_present.
Theorem C06_generated_single_voxel : forall M h v s e, GenC06.gen_vox M h v s = GenC06.gen_vox M h v e ->
  GenC06.gen_line_ids M h v s e = Some [GenC06.gen_vox M h v s].
Proof. exact GenC06.gen_line_single. Qed.
Print Assumptions C06_generated_single_voxel.
(* every emitted voxel is the generated voxel of the float midpoint of a halving piece, stored again through the generated setters *)
Theorem C06_generated_emitted_voxels : forall M h v s e l,
  mids point (GenC06.gen_vox_in M h v) mid_pt (small_pt (GenC06.gen_thresholds h v)) line_fuel s e = Some l ->
  forall i, In i l -> exists a b k n, sub mid_pt s e a b k n /\ i = GenC06.gen_vox M h v (GenC06.gen_restore (mid_pt a b)).
Proof. exact GenC06.gen_line_emitted. Qed.
Print Assumptions C06_generated_emitted_voxels.
(* PARTIAL chain theorem over the generated kernels (same condition as C06_float_model_connected_checked_partial) *)
Theorem C06_generated_connected_checked_partial : forall M h v s e l d,
  line_run (GeneratedF.m_tan M) (GeneratedF.m_cos M) (GeneratedF.m_log M) h v s e = Some (l, d, true) ->
  GenC06.gen_unstable M h v s = false -> GenC06.gen_unstable M h v e = false ->
  GenC06.gen_line_ids M h v s e = Some l /\
  forall i, In i l -> reach (adjF (GenC06.gen_folds M h v s e)) l (GenC06.gen_vox M h v s) i.
Proof. exact GenC06.gen_line_connected_checked. Qed.
Print Assumptions C06_generated_connected_checked_partial.
Example C06_generated_connected_nonvacuous : exists l d,
  line_run (GeneratedF.m_tan GenC06.eq_libm) (GeneratedF.m_cos GenC06.eq_libm) (GeneratedF.m_log GenC06.eq_libm) 12 22 eq_s1 eq_e1 = Some (l, d, true) /\
  GenC06.gen_unstable GenC06.eq_libm 12 22 eq_s1 = false /\ GenC06.gen_unstable GenC06.eq_libm 12 22 eq_e1 = false /\
  GenC06.gen_line_ids GenC06.eq_libm 12 22 eq_s1 eq_e1 = Some l /\ (10 < List.length l)%nat.
Proof. exact GenC06.gen_eq_run. Qed.
(* D14 over the generated setter and kernels *)
Theorem C06_generated_SetLat_not_idempotent :
  GeneratedF.Point_SetLat 0 0 0 d14_lat = (0, d14_lat2, 0, false)%float /\ (d14_lat2 =? d14_lat)%float = false.
Proof. exact GenC06.gen_setlat_not_idempotent. Qed.
Print Assumptions C06_generated_SetLat_not_idempotent.
Theorem C06_generated_D14_witness_in_class :
  GenC06.gen_vox GenC06.d14_libm 34 6 d14_start = mk 34 10772080123 15465462393 6 0 /\
  GenC06.gen_vox_in GenC06.d14_libm 34 6 d14_start = mk 34 10772080123 15465462392 6 0 /\
  GenC06.gen_unstable GenC06.d14_libm 34 6 d14_start = true.
Proof. exact GenC06.gen_D14_in_class. Qed.
Print Assumptions C06_generated_D14_witness_in_class.
(* the wrap width of the face-neighbour test is the regenerated maxIndex of GetShiftingSpatialID plus one, for every accepted zoom *)
Theorem C06_generated_shift_width : forall a dx dy dv m, 0 <= eh a <= 35 ->
  GeneratedF.GetShiftingSpatialID_maxIndex dx dy dv (eh a) = Some m ->
  shift_eid a dx dy dv =
  {| eh := eh a; ex := wrap (ex a) dx (m + 1); ey := wrap (ey a) dy (m + 1); ev := ev a; ef := ef a + dv |}.
Proof. exact GenC06.gen_shift_width. Qed.
Print Assumptions C06_generated_shift_width.
