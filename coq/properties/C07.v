(* C07 — Shifting an ID is modular translation on the grid.
   Only statements, `exact` proofs and Print Assumptions live here. Models and proofs: theories/Shift.v. *)
From Coq Require Import ZArith String List Lia.
From SID Require Import Base Str Ids Shift.
Open Scope Z_scope.

(* The exported function, applied to the printed form of any valid ID, returns the printed ID whose x and y are advanced
   modulo 2^h and whose vertical index is advanced by dv; zooms are kept. *)
Theorem C07_shift_is_modular_translation : forall i dx dy dv, valid i ->
  shift_api (print_eid i) dx dy dv =
  print_eid {| eh := eh i; ex := (ex i + dx) mod 2 ^ eh i; ey := (ey i + dy) mod 2 ^ eh i; ev := ev i; ef := ef i + dv |}.
Proof. exact shift_api_spec. Qed.
Print Assumptions C07_shift_is_modular_translation.

(* the result is always inside the horizontal index range; zooms unchanged; vertical index unbounded *)
Theorem C07_result_in_range : forall i dx dy dv, 0 <= eh i ->
  0 <= ex (shift_spec i dx dy dv) < 2 ^ eh i /\ 0 <= ey (shift_spec i dx dy dv) < 2 ^ eh i /\
  eh (shift_spec i dx dy dv) = eh i /\ ev (shift_spec i dx dy dv) = ev i /\ ef (shift_spec i dx dy dv) = ef i + dv.
Proof. exact shift_in_range. Qed.
Print Assumptions C07_result_in_range.

Theorem C07_zero_shift_is_identity : forall i, valid i -> shift_api (print_eid i) 0 0 0 = print_eid i.
Proof. exact shift_api_zero. Qed.
Print Assumptions C07_zero_shift_is_identity.

Theorem C07_shifts_compose : forall i a b c a' b' c', valid i -> vshift_ok i c ->
  shift_api (shift_api (print_eid i) a b c) a' b' c' = shift_api (print_eid i) (a + a') (b + b') (c + c').
Proof. exact shift_api_compose. Qed.
Print Assumptions C07_shifts_compose.

Theorem C07_shift_back_restores : forall i a b c, valid i -> vshift_ok i c ->
  shift_api (shift_api (print_eid i) a b c) (- a) (- b) (- c) = print_eid i.
Proof. exact shift_api_inverse. Qed.
Print Assumptions C07_shift_back_restores.

(* the wrap loop of the code (fuel-bounded model) terminates for every input and computes the closed form that is executed *)
Theorem C07_wrap_loop_is_closed_form : forall fuel i d w t, 0 < w -> wrap_loop fuel i d w = Some t -> t = wrap i d w.
Proof. exact wrap_loop_closed. Qed.
Print Assumptions C07_wrap_loop_is_closed_form.
Theorem C07_wrap_loop_terminates : forall i d w, 0 < w -> exists fuel t, wrap_loop fuel i d w = Some t.
Proof. exact wrap_loop_terminates. Qed.
Print Assumptions C07_wrap_loop_terminates.

(* a malformed ID gives the empty string (the shift helper has no error result) *)
Theorem C07_malformed_gives_empty : forall s dx dy dv, parse_eid s = None -> shift_api s dx dy dv = EmptyString.
Proof. exact shift_api_malformed. Qed.
Print Assumptions C07_malformed_gives_empty.

(* the run-time checker applied to the implementation's output decides exactly the specification *)
Theorem C07_checker_sound : forall i dx dy dv obs, valid i ->
  check_shift (print_eid i) dx dy dv obs = true <-> obs = print_eid (shift_spec i dx dy dv).
Proof. exact check_shift_sound. Qed.
Print Assumptions C07_checker_sound.

(* non-vacuity: a concrete valid ID at the grid edge wraps *)
Example C07_nonvacuous : valid (mk 3 7 0 4 (-16)) /\ shift_api "3/7/0/4/-16" 2 (-1) 5 = "3/1/7/4/-11"%string.
Proof. split; [unfold valid; cbn; lia | vm_compute; reflexivity]. Qed.
