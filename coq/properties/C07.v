(* C07 — Shifting an ID is modular translation on the grid.
   Only statements, `exact` proofs and Print Assumptions live here. Models and proofs: theories/Shift.v (integer model, shared),
   theories/ShiftF.v (the float layer), theories/GenC07.v (the float layer over the maxIndex regenerated from the Go source),
   theories/DC07.v (run-time checkers).
   All theorems are statements about the Coq models.  Two models of operated.GetShiftingSpatialID exist:
     shift_api    — integers only; the wrap is the closed form `s mod 2^h` (what the other properties build on);
     shift_api_f  — the executable twin that goes through the same binary64 operations as the Go code (math.Pow(2,h), float64(int64),
                    math.Mod, int64(float64)) and the same repeated-addition loop; THIS one is run side by side with the Go code.
   C07_float_layer_exact ties the two on the property's quantifier; C07_float_layer_refuted shows where the tie ends (x + dx > 2^53). *)
From Coq Require Import ZArith String List Lia.
From SIDGen Require GeneratedF.
From SID Require Import Base Str Ids Wire Shift ShiftF DC07 GenC07.
Import ListNotations.
Open Scope Z_scope.

(* (1) The integer model, applied to the printed form of any valid ID, returns the printed ID whose x and y are advanced modulo 2^h and
   whose vertical index is advanced by dv; zooms are kept.  (dx, dy, dv : any integers — the model has no int64.) *)
Theorem C07_shift_is_modular_translation : forall i dx dy dv, valid i ->
  shift_api (print_eid i) dx dy dv =
  print_eid {| eh := eh i; ex := (ex i + dx) mod 2 ^ eh i; ey := (ey i + dy) mod 2 ^ eh i; ev := ev i; ef := ef i + dv |}.
Proof. exact shift_api_spec. Qed.
Print Assumptions C07_shift_is_modular_translation.

(* (2) The float layer is exact on the quantifier: for a valid ID and |dx|, |dy| <= 4 * 2^h the twin that computes through
   Pow / float64() / the loop / Mod / int64() is never refused (fuel) and returns the same string as the modular specification. *)
Theorem C07_float_layer_exact : forall i dx dy dv, valid i -> Z.abs dx <= 4 * 2 ^ eh i -> Z.abs dy <= 4 * 2 ^ eh i ->
  shift_api_f (print_eid i) dx dy dv = Some (print_eid (shift_spec i dx dy dv)).
Proof. exact shift_api_f_quantifier. Qed.
Print Assumptions C07_float_layer_exact.
(* the same with the weakest bounds proved: -4094 * 2^h <= x + dx <= 2^53 (likewise y) *)
Theorem C07_float_layer_exact_wide : forall i dx dy dv, valid i ->
  - 4094 * 2 ^ eh i <= ex i + dx <= 2 ^ 53 -> - 4094 * 2 ^ eh i <= ey i + dy <= 2 ^ 53 ->
  shift_api_f (print_eid i) dx dy dv = Some (print_eid (shift_spec i dx dy dv)).
Proof. exact shift_api_f_exact. Qed.
Print Assumptions C07_float_layer_exact_wide.
(* the wrap itself, for any sufficient fuel of the loop *)
Theorem C07_float_wrap_exact : forall fuel i d h, 0 <= h <= 52 -> i + d <= 2 ^ 53 ->
  addloop fuel (i + d) (2 ^ h) <> None -> wrap_f fuel i d h = Some ((i + d) mod 2 ^ h).
Proof. exact wrap_f_exact. Qed.
Print Assumptions C07_float_wrap_exact.
(* (3) REFUTED beyond 2^53: float64(x + dx) rounds; zoom 1, x = 0, dx = 2^53 + 1 gives x = 0 (Go: "1/0/0/0/0"), exact is 1.
   Outside the property's quantifier (|dx| <= 4 * 2^h <= 2^37). *)
Theorem C07_float_layer_refuted : exists fuel i d h, 0 <= h <= 35 /\ 0 <= i < 2 ^ h /\ 2 ^ 53 < i + d /\
  wrap_f fuel i d h = Some 0 /\ (i + d) mod 2 ^ h = 1.
Proof. exact wrap_f_refuted. Qed.
Print Assumptions C07_float_layer_refuted.

(* (3g) THE SAME RESULTS OVER THE DEFINITION REGENERATED FROM THE GO SOURCE.  GeneratedF.GetShiftingSpatialID_maxIndex x y v hZoom is written
   by the translator on every run from operated/shifting_spatial_id.go: the local `maxIndex := int64(math.Pow(2, float64(hZoom)) - 1)` as a
   function of the parameters and hZoom.  wrap_with mx is the wrap of the twin with its guard bound as an argument (wrap_f = wrap_with
   (max_index_f h) by definition); shift_api_g is the API twin whose two wraps take GeneratedF's maxIndex.  An edit of that expression in
   /repo changes GeneratedF and breaks these theorems.  (Not regenerated: the addition loop, int64(math.Mod(..)), reading/printing the ID.) *)
(* the generated maxIndex is exactly the last index 2^h - 1 of the grid, for every zoom 0..52 (the library's zooms are 0..35) *)
Theorem C07_generated_maxIndex_is_last_index : forall x y v h, 0 <= h <= 52 ->
  GeneratedF.GetShiftingSpatialID_maxIndex x y v h = Some (2 ^ h - 1).
Proof. exact max_index_g_exact. Qed.
Print Assumptions C07_generated_maxIndex_is_last_index.
(* the wrap guarded by the generated maxIndex computes (i + d) mod 2^h whenever i + d <= 2^53, for any sufficient fuel of the loop *)
Theorem C07_generated_wrap_exact : forall x y v fuel i d h, 0 <= h <= 52 -> i + d <= 2 ^ 53 ->
  addloop fuel (i + d) (2 ^ h) <> None ->
  wrap_with (GeneratedF.GetShiftingSpatialID_maxIndex x y v h) fuel i d h = Some ((i + d) mod 2 ^ h).
Proof. exact wrap_g_exact. Qed.
Print Assumptions C07_generated_wrap_exact.
(* the API twin over the generated maxIndex is modular translation for -4094 * 2^h <= x + dx <= 2^53 (likewise y), never refused ... *)
Theorem C07_generated_float_layer_exact_wide : forall i dx dy dv, valid i ->
  - 4094 * 2 ^ eh i <= ex i + dx <= 2 ^ 53 -> - 4094 * 2 ^ eh i <= ey i + dy <= 2 ^ 53 ->
  shift_api_g (print_eid i) dx dy dv = Some (print_eid (shift_spec i dx dy dv)).
Proof. exact shift_api_g_exact. Qed.
Print Assumptions C07_generated_float_layer_exact_wide.
(* ... in particular on the property's quantifier |dx|, |dy| <= 4 * 2^h *)
Theorem C07_generated_float_layer_exact : forall i dx dy dv, valid i -> Z.abs dx <= 4 * 2 ^ eh i -> Z.abs dy <= 4 * 2 ^ eh i ->
  shift_api_g (print_eid i) dx dy dv = Some (print_eid (shift_spec i dx dy dv)).
Proof. exact shift_api_g_quantifier. Qed.
Print Assumptions C07_generated_float_layer_exact.
(* it is, on every input (any string, any shift), the twin that is run side by side with the Go code *)
Theorem C07_generated_twin_is_the_executed_twin : forall id dx dy dv, shift_api_g id dx dy dv = shift_api_f id dx dy dv.
Proof. exact shift_api_g_eq. Qed.
Print Assumptions C07_generated_twin_is_the_executed_twin.
(* and the tie ends at the same place: beyond 2^53 the wrap guarded by the generated maxIndex returns 0 where the exact answer is 1 *)
Theorem C07_generated_float_layer_refuted : exists x y v fuel i d h, 0 <= h <= 35 /\ 0 <= i < 2 ^ h /\ 2 ^ 53 < i + d /\
  wrap_with (GeneratedF.GetShiftingSpatialID_maxIndex x y v h) fuel i d h = Some 0 /\ (i + d) mod 2 ^ h = 1.
Proof. exact wrap_g_refuted. Qed.
Print Assumptions C07_generated_float_layer_refuted.
(* non-vacuity: the generated maxIndex at the extreme zooms; the generated twin wraps at the grid edge and through the loop *)
Example C07_nonvacuous_generated :
  GeneratedF.GetShiftingSpatialID_maxIndex 1 (-1) 0 0 = Some 0 /\ GeneratedF.GetShiftingSpatialID_maxIndex 0 0 0 35 = Some 34359738367 /\
  valid (mk 3 7 0 4 (-16)) /\ shift_api_g "3/7/0/4/-16" 2 (-1) 5 = Some "3/1/7/4/-11"%string /\
  shift_api_g "3/7/0/4/-16" (-32) 31 0 = Some "3/7/7/4/-16"%string.
Proof. split; [vm_compute; reflexivity|]. split; [vm_compute; reflexivity|]. split; [unfold valid; cbn; lia|]. split; vm_compute; reflexivity. Qed.

(* (4) the returned string is again an ID with the same zooms, inside the horizontal range, vertical index advanced by dv
   (vshift_ok: the new vertical index is an int64 — the property's own restriction) *)
Theorem C07_result_is_an_id_in_range : forall i dx dy dv, valid i -> vshift_ok i dv ->
  exists j, parse_eid (shift_api (print_eid i) dx dy dv) = Some j /\ eh j = eh i /\ ev j = ev i /\
            0 <= ex j < 2 ^ eh i /\ 0 <= ey j < 2 ^ eh i /\ ef j = ef i + dv.
Proof. exact shift_api_result. Qed.
Print Assumptions C07_result_is_an_id_in_range.

(* (5) every accepted spelling of a valid ID ("+3/07/-0/+1/-01") is shifted like its canonical form *)
Theorem C07_spelling_independent : forall s i dx dy dv, parse_eid s = Some i -> valid i ->
  shift_api s dx dy dv = print_eid (shift_spec i dx dy dv).
Proof. exact shift_api_spelling. Qed.
Print Assumptions C07_spelling_independent.

(* (6) laws between calls, on strings *)
Theorem C07_zero_shift_is_identity : forall i, valid i -> shift_api (print_eid i) 0 0 0 = print_eid i.
Proof. exact shift_api_zero. Qed.
Print Assumptions C07_zero_shift_is_identity.
Theorem C07_shifts_compose : forall i a b c a' b' c', valid i -> vshift_ok i c ->
  shift_api (shift_api (print_eid i) a b c) a' b' c' = shift_api (print_eid i) (a + a') (b + b') (c + c').
Proof. exact shift_api_compose. Qed.
Print Assumptions C07_shifts_compose.
Theorem C07_shift_back_restores : forall i a b c, valid i -> vshift_ok i c ->
  shift_api (shift_api (print_eid i) a b c) (- a) (- b) (- c) = print_eid i.
Proof. exact shift_api_inverse. Qed.
Print Assumptions C07_shift_back_restores.

(* (7) the run-time checkers applied to the implementation's output decide exactly the specification *)
Theorem C07_checker_sound : forall i dx dy dv obs, valid i ->
  check_shift (print_eid i) dx dy dv obs = true <-> obs = print_eid (shift_spec i dx dy dv).
Proof. exact check_shift_sound. Qed.
Print Assumptions C07_checker_sound.
Theorem C07_law_checker_sound : forall i a1 a2 a3 b1 b2 b3 o, valid i -> check_shift_laws (print_eid i) a1 a2 a3 b1 b2 b3 o = true ->
  o = [print_eid (shift_spec i a1 a2 a3); print_eid (shift_spec i (a1 + b1) (a2 + b2) (a3 + b3));
       print_eid (shift_spec i (a1 + b1) (a2 + b2) (a3 + b3)); print_eid i; print_eid i].
Proof. exact check_shift_laws_sound. Qed.
Print Assumptions C07_law_checker_sound.

(* (8) histories of exported calls: a case of the history entries carries, after the arguments of the plain entry, a prelude p of operations
   (SetX / SetY / SetZ / SetZoom / ResetExtendedSpatialID) that the caller performed on ITS OWN parse (object.NewExtendedSpatialID) of the
   same ID string immediately before the call.  The expected string and the verdict do not depend on p: they are those of the plain
   call on (id, dx, dy, dv) — an implementation whose answer moves with the caller's private object fails check_shift on that case. *)
Theorem C07_history_independent : forall id dx dy dv p obs, prelude_ok p = true ->
  d_shift_hist [VS id; VZ dx; VZ dy; VZ dv; p] obs = d_shift [VS id; VZ dx; VZ dy; VZ dv] obs.
Proof. exact shift_history_independent. Qed.
Print Assumptions C07_history_independent.
Theorem C07_laws_history_independent : forall id a1 a2 a3 b1 b2 b3 p obs, prelude_ok p = true ->
  d_shift_laws_hist [VS id; VZ a1; VZ a2; VZ a3; VZ b1; VZ b2; VZ b3; p] obs =
  d_shift_laws [VS id; VZ a1; VZ a2; VZ a3; VZ b1; VZ b2; VZ b3] obs.
Proof. exact shift_laws_history_independent. Qed.
Print Assumptions C07_laws_history_independent.

(* non-vacuity of (8): a prelude of every operation is accepted; after it, the seeded answer "20/0/0/20/1000" to a zero shift of
   "20/1048575/3/20/-7" is a property failure, the identity is a pass *)
Example C07_nonvacuous_history :
  let p := VL [VL [VS "SetX"; VZ 0]; VL [VS "SetY"; VZ 0]; VL [VS "SetZ"; VZ 1000]; VL [VS "SetZoom"; VZ 3; VZ 4];
               VL [VS "ResetExtendedSpatialID"; VS "1/0/0/1/0"]]%string in
  prelude_ok p = true /\
  v_prop (d_shift_hist [VS "20/1048575/3/20/-7"; VZ 0; VZ 0; VZ 0; p] (VS "20/0/0/20/1000")) = false /\
  v_prop (d_shift_hist [VS "20/1048575/3/20/-7"; VZ 0; VZ 0; VZ 0; p] (VS "20/1048575/3/20/-7")) = true /\
  v_corr (d_shift_hist [VS "20/1048575/3/20/-7"; VZ 0; VZ 0; VZ 0; p] (VS "20/1048575/3/20/-7")) = true.
Proof. vm_compute. repeat split; reflexivity. Qed.

(* (9) the run-time entries are TOTAL: on well-shaped arguments (a string and integers; for the history entries a well-formed prelude) the
   verdict's class is never "bad-case" (which the runner reports as "the model cannot process this case"), whatever was observed — it is
   "-" (judged) or "skipped".  IDs that parse but are not valid (index outside the grid, any accepted spelling, huge vertical shifts) are
   judged from the wrapped voxel as long as 0 <= hZoom <= 35, all sums are int64 and x+dx, y+dy <= 2^53; the rest is class "skipped". *)
Theorem C07_model_never_bad_case : forall id dx dy dv b1 b2 b3 p obs, prelude_ok p = true ->
  v_class (d_shift [VS id; VZ dx; VZ dy; VZ dv] obs) <> "bad-case"%string /\
  v_class (d_shift_laws [VS id; VZ dx; VZ dy; VZ dv; VZ b1; VZ b2; VZ b3] obs) <> "bad-case"%string /\
  v_class (d_shift_hist [VS id; VZ dx; VZ dy; VZ dv; p] obs) <> "bad-case"%string /\
  v_class (d_shift_laws_hist [VS id; VZ dx; VZ dy; VZ dv; VZ b1; VZ b2; VZ b3; p] obs) <> "bad-case"%string.
Proof. exact table_C07_never_bad_case. Qed.
Print Assumptions C07_model_never_bad_case.
(* "skipped" is no silent pass of the quantifier: it is answered only when the domain predicate recomputed from the arguments fails or the
   twin itself refuses (fuel), and a valid ID with int64 sums inside the proved range of the float layer is always judged *)
Theorem C07_skipped_only_outside_domain : forall id dx dy dv obs, v_class (d_shift [VS id; VZ dx; VZ dy; VZ dv] obs) = "skipped"%string ->
  call_dom id dx dy dv = false \/ shift_api_f id dx dy dv = None.
Proof. exact d_shift_skipped_only_outside. Qed.
Print Assumptions C07_skipped_only_outside_domain.
Theorem C07_quantifier_always_judged : forall i dx dy dv obs, valid i -> dom_shift i dx dy dv = true ->
  - 4094 * 2 ^ eh i <= ex i + dx <= 2 ^ 53 -> - 4094 * 2 ^ eh i <= ey i + dy <= 2 ^ 53 ->
  v_class (d_shift [VS (print_eid i); VZ dx; VZ dy; VZ dv] obs) = "-"%string.
Proof. exact d_shift_judged_on_quantifier. Qed.
Print Assumptions C07_quantifier_always_judged.
(* non-vacuity of (9): the two inputs of the thorough run that used to be answered bad-case are judged and pass with what the library
   returned; a wrong answer on them fails; hZoom 36 and "-1/0/0/0/0" are skipped *)
Example C07_nonvacuous_total :
  d_shift_hist [VS "04/8589934592/3465613031/2/3"; VZ (-4); VZ 3; VZ (-8034046870170525263);
                VL [VL [VS "ResetExtendedSpatialID"; VS "23/4194303/859179/7/127"]]] (VS "4/12/10/2/-8034046870170525260")
    = mkv true true "-" (VS "4/12/10/2/-8034046870170525260") /\
  (let v := d_shift_laws [VS "11/1674/1416/04/-9551091870"; VZ 2; VZ 2; VZ 250159807095; VZ (-6); VZ (-2); VZ 251378831283]
              (VL [VS "11/1676/1418/4/240608715225"; VS "11/1670/1416/4/491987546508"; VS "11/1670/1416/4/491987546508";
                   VS "11/1674/1416/4/-9551091870"; VS "11/1674/1416/4/-9551091870"]) in
   (v_corr v, v_prop v, v_class v) = (true, true, "-")) /\
  v_prop (d_shift [VS "04/8589934592/3465613031/2/3"; VZ (-4); VZ 3; VZ 0] (VS "4/8589934588/3465613034/2/3")) = false /\
  v_class (d_shift [VS "36/0/0/0/0"; VZ 1; VZ 0; VZ 0] (VS "36/1/0/0/0")) = "skipped" /\
  v_class (d_shift [VS "-1/0/0/0/0"; VZ (-1); VZ 0; VZ 0] VTimeout) = "skipped" /\
  v_class (d_shift [VS "4/0/0/4/0"; VZ 1; VZ 0; VZ 0] VPanic) = "-" /\ v_prop (d_shift [VS "4/0/0/4/0"; VZ 1; VZ 0; VZ 0] VPanic) = false.
Proof. vm_compute. repeat split; reflexivity. Qed.

(* non-vacuity: a concrete valid ID at the grid edge wraps (both models), a multi-lap negative shift goes through the loop,
   compose / inverse hypotheses are satisfiable at the int64 boundary *)
Example C07_nonvacuous : valid (mk 3 7 0 4 (-16)) /\ shift_api "3/7/0/4/-16" 2 (-1) 5 = "3/1/7/4/-11"%string /\
  shift_api_f "3/7/0/4/-16" 2 (-1) 5 = Some "3/1/7/4/-11"%string /\
  shift_api_f "3/7/0/4/-16" (-32) 31 0 = Some "3/7/7/4/-16"%string.
Proof. split; [unfold valid; cbn; lia | vm_compute; repeat split; reflexivity]. Qed.
Example C07_nonvacuous_laws : valid (mk 0 0 0 35 (-34359738368)) /\ vshift_ok (mk 0 0 0 35 (-34359738368)) (2 ^ 63 - 1) /\
  shift_api (shift_api "0/0/0/35/-34359738368" 5 (-5) (2 ^ 63 - 1)) (-5) 5 (- (2 ^ 63 - 1)) = "0/0/0/35/-34359738368"%string.
Proof. split; [unfold valid; cbn; lia|]. split; [unfold vshift_ok; cbn; lia | vm_compute; reflexivity]. Qed.
