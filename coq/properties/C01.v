(* C01 — stub while building *)
From Coq Require Import ZArith.
