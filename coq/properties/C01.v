(* C01 — A point is mapped to the one grid voxel that contains it.
   Only statements, `exact` proofs and Print Assumptions live here.  Models: theories/F64.v, PointF.v (bit-exact binary64 model of
   shape/point.go with Go's math.Tan/Cos/Log as an oracle).  Proofs: theories/PtBridge.v FF.v XF.v YF.v PtMerc.v PointProofs.v SetLatProofs.v.
   Vocabulary: fval f = the real value of a float, ffin f = it is finite; X_exact / Y_exact / F_exact = the three exact floors of the
   property text; x_f / y_f / f_f = what the code computes; points_api / points_sid_api = the two exported functions. *)
From Coq Require Import ZArith Reals List String Floats.
From Flocq Require Import Core.
From SID Require Import Base Str Ids F64 ExactRef PointF Voxel PtBridge FF XF YF PtMerc PointCheck PointProofs SetLatProofs PointSetters.
Import ListNotations.
Open Scope Z_scope.

(* ================= (1) list structure, error cases, spatial-ID form ================= *)
(* success: the zooms are in 0..35 and the output is, point by point and in the input order, the printed voxel of each point *)
Theorem C01_list_one_id_per_point_in_order : forall tanf cosf logf l h v ids,
  points_api tanf cosf logf false l h v = Ok ids ->
  (0 <= h <= 35 /\ 0 <= v <= 35) /\
  exists r, Forall2 (fun p i => point_eid tanf cosf logf p h v = Some i) l r /\ ids = map print_eid r.
Proof. exact points_api_ok. Qed.
Print Assumptions C01_list_one_id_per_point_in_order.

Theorem C01_list_length_preserved : forall tanf cosf logf l h v ids,
  points_api tanf cosf logf false l h v = Ok ids -> List.length ids = List.length l.
Proof. exact points_api_length. Qed.
Print Assumptions C01_list_length_preserved.

Theorem C01_list_order_preserved : forall tanf cosf logf l h v ids n p,
  points_api tanf cosf logf false l h v = Ok ids -> nth_error l n = Some p ->
  exists i, point_eid tanf cosf logf p h v = Some i /\ nth_error ids n = Some (print_eid i).
Proof. exact points_api_nth. Qed.
Print Assumptions C01_list_order_preserved.

(* the spatial-ID form is the same voxel with h = v = z, written z/f/x/y, same length and order *)
Theorem C01_spatial_id_form_is_same_voxel : forall tanf cosf logf l z sids,
  points_sid_api tanf cosf logf false l z = Ok sids ->
  0 <= z <= 35 /\
  exists r, Forall2 (fun p i => point_eid tanf cosf logf p z z = Some i) l r /\
            sids = map (fun i => join [print (eh i); print (ef i); print (ex i); print (ey i)]) r /\
            points_api tanf cosf logf false l z z = Ok (map print_eid r).
Proof. exact points_sid_api_ok. Qed.
Print Assumptions C01_spatial_id_form_is_same_voxel.

(* valid input never gives an error ON THE MODEL: zooms in 0..35, every point in the documented domain and a Mercator float m in [0,2).
   pt_ok p := pt_domain p /\ m finite /\ 0 <= m < 2.  The last two conjuncts are a hypothesis about Go's libm (math.Tan/Cos/Log), which no
   theorem discharges (pt_domain itself has no latitude bound: the latitude enters only through m). At run time only its consequences are
   checked: no error is returned, and 0 <= y < 2^h at the case's own zoom — for every point, classed or not. *)
Theorem C01_valid_input_succeeds : forall tanf cosf logf l h v, 0 <= h <= 35 -> 0 <= v <= 35 -> Forall (pt_ok tanf cosf logf) l ->
  exists ids, points_api tanf cosf logf false l h v = Ok ids /\ List.length ids = List.length l.
Proof. exact points_api_total. Qed.
Print Assumptions C01_valid_input_succeeds.
Theorem C01_valid_input_succeeds_spatial_id : forall tanf cosf logf l z, 0 <= z <= 35 -> Forall (pt_ok tanf cosf logf) l ->
  exists sids, points_sid_api tanf cosf logf false l z = Ok sids /\ List.length sids = List.length l.
Proof. exact points_sid_api_total. Qed.
Print Assumptions C01_valid_input_succeeds_spatial_id.

(* error cases: a zoom outside 0..35 or a nil point gives an error, for both functions *)
Theorem C01_bad_zoom_is_error : forall tanf cosf logf has_nil l h v,
  ~ (0 <= h <= 35 /\ 0 <= v <= 35) -> points_api tanf cosf logf has_nil l h v = Err.
Proof. exact points_api_bad_zoom. Qed.
Print Assumptions C01_bad_zoom_is_error.
Theorem C01_nil_point_is_error : forall tanf cosf logf l h v, points_api tanf cosf logf true l h v = Err.
Proof. exact points_api_nil_point. Qed.
Print Assumptions C01_nil_point_is_error.
Theorem C01_spatial_id_bad_zoom_is_error : forall tanf cosf logf has_nil l z,
  ~ 0 <= z <= 35 -> points_sid_api tanf cosf logf has_nil l z = Err.
Proof. exact points_sid_api_bad_zoom. Qed.
Print Assumptions C01_spatial_id_bad_zoom_is_error.
Theorem C01_spatial_id_nil_point_is_error : forall tanf cosf logf l z, points_sid_api tanf cosf logf true l z = Err.
Proof. exact points_sid_api_nil_point. Qed.
Print Assumptions C01_spatial_id_nil_point_is_error.

(* ================= (2) altitude: floor, not truncation; exact outside the denormal class ================= *)
(* alt_underflow alt v :=  alt <> 0 and |alt| < 2^(-997-v)  (the quotient alt / 2^(25-v) is a denormal number) *)
Theorem C01_f_is_exact_floor_partial : forall alt v, 0 <= v <= 35 ->
  ffin alt = true -> (Rabs (fval alt) <= bpow radix2 40)%R -> ~ alt_underflow alt v ->
  f_f alt v = Some (Zfloor (fval alt * bpow radix2 v / bpow radix2 25)).
Proof. exact f_f_exact. Qed.
Print Assumptions C01_f_is_exact_floor_partial.

(* on the class the statement is false of the faithful model (D12): alt = -2^-1074 at vertical zoom 0 gives 0, the floor is -1 *)
Theorem C01_alt_underflow_refuted :
  exists alt v, 0 <= v <= 35 /\ ffin alt = true /\ (Rabs (fval alt) <= bpow radix2 25)%R /\ alt_underflow alt v /\
                f_f alt v = Some 0 /\ F_exact v (fval alt) = -1.
Proof. exact f_f_underflow_refuted. Qed.
Print Assumptions C01_alt_underflow_refuted.

(* the closed top edge of the documented domain: alt = 2^25 exactly is the first layer above the grid, f = 2^v, which is NOT a valid
   vertical index (valid: -2^v <= f < 2^v); C01_f_in_range / C01_voxel_is_valid therefore need alt < 2^25.  The run-time checker accepts
   f = 2^v for alt = 2^25 only. *)
Theorem C01_top_edge_altitude : forall v, 0 <= v <= 35 -> f_f 33554432%float v = Some (2 ^ v) /\ F_exact v (bpow radix2 25) = 2 ^ v.
Proof. exact f_f_top_edge. Qed.
Print Assumptions C01_top_edge_altitude.

(* the class is decided on the input by the boolean that the dispatch entry evaluates *)
Theorem C01_alt_underflow_class_decided : forall alt v, 0 <= v <= 35 -> ffin alt = true ->
  alt_underflow_b alt v = true <-> alt_underflow alt v.
Proof. exact alt_underflow_b_spec. Qed.
Print Assumptions C01_alt_underflow_class_decided.

(* inside the documented range the exact index is a valid vertical index *)
Theorem C01_f_in_range : forall v alt, 0 <= v -> (- bpow radix2 25 <= alt < bpow radix2 25)%R -> - 2 ^ v <= F_exact v alt < 2 ^ v.
Proof. exact F_exact_range. Qed.
Print Assumptions C01_f_in_range.

(* ================= (3) longitude ================= *)
(* always a valid column for |lon| <= 180 (after fix 242c5f8: including the float just below 180) *)
Theorem C01_x_always_in_range : forall lon h, 0 <= h <= 35 -> ffin lon = true -> (-180 <= fval lon <= 180)%R ->
  exists x, x_f lon h = Some x /\ 0 <= x < 2 ^ h.
Proof. exact x_f_range. Qed.
Print Assumptions C01_x_always_in_range.

(* longitude 180 is treated as -180 *)
Theorem C01_x_180_is_minus_180 : forall h, 0 <= h <= 35 -> x_f 180%float h = Some 0 /\ x_f (-180)%float h = Some 0.
Proof. exact x_f_180_is_minus_180. Qed.
Print Assumptions C01_x_180_is_minus_180.

(* monotone in the longitude (180 read as -180) *)
Theorem C01_x_monotone : forall a b h xa xb, 0 <= h <= 35 ->
  ffin a = true -> ffin b = true -> (-180 <= fval a <= 180)%R -> (-180 <= fval b <= 180)%R ->
  (lon_fold (fval a) <= lon_fold (fval b))%R -> x_f a h = Some xa -> x_f b h = Some xb -> xa <= xb.
Proof. exact x_f_monotone. Qed.
Print Assumptions C01_x_monotone.

(* exact whenever the two roundings (lon + 180, then / 360) are exact ... *)
Theorem C01_x_exact_if_roundings_exact : forall lon h, 0 <= h <= 35 -> ffin lon = true ->
  (-180 <= fval lon <= 180)%R -> roundings_exact (fval lon) -> x_f lon h = Some (X_exact h (fval lon)).
Proof. exact x_f_exact_if_roundings_exact. Qed.
Print Assumptions C01_x_exact_if_roundings_exact.
(* ... in particular on every column boundary k*360/2^j - 180, j <= 44: the point belongs to the column that starts there *)
Theorem C01_x_exact_on_column_boundaries : forall lon h j k, 0 <= h <= 35 -> 0 <= j <= 44 -> 0 <= k < 2 ^ j -> ffin lon = true ->
  fval lon = (IZR k * 360 / bpow radix2 j - 180)%R -> x_f lon h = Some (Zfloor (IZR k * bpow radix2 (h - j))).
Proof. exact x_f_on_boundary. Qed.
Print Assumptions C01_x_exact_on_column_boundaries.

(* partial theorem: x is the exact floor unless the exact position is within 2^(h-52) columns of a column boundary
   (x_rounding l h := floor(2^h u(l) - 2^(h-52)) <> floor(2^h u(l) + 2^(h-52)), u = (lon+180)/360 with 180 folded) *)
Theorem C01_x_is_exact_floor_partial : forall lon h, 0 <= h <= 35 -> ffin lon = true -> (-180 <= fval lon <= 180)%R ->
  ~ x_rounding (fval lon) h -> x_f lon h = Some (X_exact h (fval lon)).
Proof. exact x_f_exact_outside_class. Qed.
Print Assumptions C01_x_is_exact_floor_partial.
(* and never more than one column away *)
Theorem C01_x_within_one_column : forall lon h x, 0 <= h <= 35 -> ffin lon = true -> (-180 <= fval lon <= 180)%R ->
  x_f lon h = Some x -> X_exact h (fval lon) - 1 <= x <= X_exact h (fval lon) + 1.
Proof. exact x_f_within_one. Qed.
Print Assumptions C01_x_within_one_column.

(* the class is decided on the input (exact integer arithmetic on the float's dyadic value) by the boolean that the dispatch entry evaluates *)
Theorem C01_x_rounding_class_decided : forall lon h, 0 <= h -> ffin lon = true -> x_rounding_b lon h = true <-> x_rounding (fval lon) h.
Proof. exact x_rounding_b_spec. Qed.
Print Assumptions C01_x_rounding_class_decided.

(* on the class the statement is false of the faithful model (D13): lon = float64(-1e-20), h = 3 gives column 4, the point is in column 3 *)
Theorem C01_x_rounding_refuted :
  exists lon h, 0 <= h <= 35 /\ ffin lon = true /\ (-180 <= fval lon <= 180)%R /\ x_rounding (fval lon) h /\
                x_f lon h = Some 4 /\ X_exact h (fval lon) = 3.
Proof. exact x_f_rounding_refuted. Qed.
Print Assumptions C01_x_rounding_refuted.

(* ================= (4) latitude ================= *)
(* binary64 side, for every answer of Go's math.Tan/Cos/Log: the rows of one latitude are nested across zooms and in range as
   soon as the zoom-35 row is (m = the float 1 - Log(..)/Pi of the code; |m| <= 4 excludes only non-finite / absurd oracle answers) *)
Theorem C01_y_rows_nested_and_in_range : forall tanf cosf logf lat r,
  ffin (merc_m tanf cosf logf lat) = true -> (Rabs (fval (merc_m tanf cosf logf lat)) <= 4)%R ->
  y_f tanf cosf logf lat 35 = Some r -> 0 <= r < 2 ^ 35 ->
  forall h, 0 <= h <= 35 -> y_f tanf cosf logf lat h = Some (anc (35 - h) r) /\ 0 <= anc (35 - h) r < 2 ^ h.
Proof. exact y_f_nested. Qed.
Print Assumptions C01_y_rows_nested_and_in_range.

Theorem C01_y_is_floor_of_scaled_m : forall tanf cosf logf lat h, 0 <= h <= 35 ->
  ffin (merc_m tanf cosf logf lat) = true -> (0 <= fval (merc_m tanf cosf logf lat) < 2)%R ->
  y_f tanf cosf logf lat h = Some (Zfloor (bpow radix2 h * (fval (merc_m tanf cosf logf lat) / 2))).
Proof. exact y_f_inrange. Qed.
Print Assumptions C01_y_is_floor_of_scaled_m.

(* from the code's rows to the real-number rows.  NOT proved: that Go's m/2 is close to the real Mercator fraction w(lat) (that is a
   statement about math.Tan/Cos/Log).  Proved: (i) if the zoom-35 row of the model is the real-number row — which the meta step latcert
   certifies per sampled latitude with CoqInterval — then the row at EVERY zoom is the real-number row and in range;
   (ii) if |m/2 - w(lat)| <= 2^-45 then at every zoom the row is in range, at most one row off, and exact unless the real position is
   within 2^(h-45) rows of a row boundary (y_rounding: the tolerance band used by latcert). *)
Theorem C01_y_all_zooms_from_certified_zoom35_partial : forall tanf cosf logf lat (latR : R),
  ffin (merc_m tanf cosf logf lat) = true -> (Rabs (fval (merc_m tanf cosf logf lat)) <= 4)%R -> (Rabs latR <= lat_limit)%R ->
  y_f tanf cosf logf lat 35 = Some (Y_exact 35 latR) ->
  forall h, 0 <= h <= 35 -> y_f tanf cosf logf lat h = Some (Y_exact h latR) /\ 0 <= Y_exact h latR < 2 ^ h.
Proof. exact y_f_all_zooms_from_35. Qed.
Print Assumptions C01_y_all_zooms_from_certified_zoom35_partial.
Theorem C01_y_close_to_real_row_partial : forall tanf cosf logf lat (latR : R) h, 0 <= h <= 35 ->
  ffin (merc_m tanf cosf logf lat) = true -> (Rabs latR <= lat_limit)%R ->
  (Rabs (fval (merc_m tanf cosf logf lat) / 2 - wfrac latR) <= bpow radix2 (-45))%R ->
  exists y, y_f tanf cosf logf lat h = Some y /\ 0 <= y < 2 ^ h /\ Y_exact h latR - 1 <= y <= Y_exact h latR + 1 /\
            (~ y_rounding latR h -> y = Y_exact h latR).
Proof. exact y_f_close. Qed.
Print Assumptions C01_y_close_to_real_row_partial.

(* real-number side: the Mercator fraction (1 - asinh(tan lat)/pi)/2, written as the code writes it, lies strictly inside (0,1)
   on |lat| <= 85.0511287798 (lat_limit = 85.05112877980001 covers the decimal and its binary64), hence 0 <= Y < 2^h *)
Theorem C01_mercator_fraction_strictly_inside : forall lat, (Rabs lat <= lat_limit)%R ->
  (2 / 10 ^ 13 < wfrac lat < 1 - 2 / 10 ^ 13)%R.
Proof. exact wfrac_range. Qed.
Print Assumptions C01_mercator_fraction_strictly_inside.
Theorem C01_Y_in_range : forall h lat, 0 <= h -> (Rabs lat <= lat_limit)%R -> 0 <= Y_exact h lat < 2 ^ h.
Proof. exact Y_exact_range. Qed.
Print Assumptions C01_Y_in_range.
Theorem C01_asinh_form_is_log_form : forall phi, (- (PI / 2) < phi < PI / 2)%R -> arcsinh (tan phi) = ln (tan phi + 1 / cos phi).
Proof. exact asinh_tan. Qed.
Print Assumptions C01_asinh_form_is_log_form.

(* real numbers only (nothing about the code here): the box of (X, Y, F) is the unique voxel of zooms (h, v) containing the point — by
   definition of Voxel.inR this is the statement that a half-open box is determined by the three floors —, it is a valid ID on the
   documented domain with alt < 2^25, and the voxels of one point at different zooms are nested.  The code is tied to X and F by
   C01_point_voxel_partial and to Y only through the latitude theorems above plus the per-sample certificates. *)
Theorem C01_voxel_is_the_unique_container : forall h v lon lat alt i, eh i = h -> ev i = v ->
  (inR i (norm_pt lon lat alt) <-> i = voxel_of h v lon lat alt).
Proof. exact voxel_of_unique. Qed.
Print Assumptions C01_voxel_is_the_unique_container.
Theorem C01_voxel_is_valid : forall h v lon lat alt, 0 <= h <= 35 -> 0 <= v <= 35 ->
  (-180 <= lon <= 180)%R -> (Rabs lat <= lat_limit)%R -> (- bpow radix2 25 <= alt < bpow radix2 25)%R ->
  valid (voxel_of h v lon lat alt).
Proof. exact voxel_of_valid. Qed.
Print Assumptions C01_voxel_is_valid.
Theorem C01_voxels_of_a_point_are_nested : forall h h' v v' lon lat alt, 0 <= h <= h' -> 0 <= v <= v' ->
  ex (voxel_of h v lon lat alt) = anc (h' - h) (ex (voxel_of h' v' lon lat alt)) /\
  ey (voxel_of h v lon lat alt) = anc (h' - h) (ey (voxel_of h' v' lon lat alt)) /\
  ef (voxel_of h v lon lat alt) = anc (v' - v) (ef (voxel_of h' v' lon lat alt)).
Proof. exact voxel_of_nested. Qed.
Print Assumptions C01_voxels_of_a_point_are_nested.

(* ================= the per-point theorem of the code (partial: outside the two classes; y relative to the float m) ================= *)
Theorem C01_point_voxel_partial : forall tanf cosf logf p h v, 0 <= h <= 35 -> 0 <= v <= 35 -> pt_domain p ->
  ~ x_rounding (fval (plon p)) h -> ~ alt_underflow (palt p) v ->
  ffin (merc_m tanf cosf logf (plat p)) = true -> (0 <= fval (merc_m tanf cosf logf (plat p)) < 2)%R ->
  point_eid tanf cosf logf p h v =
    Some (mk h (X_exact h (fval (plon p))) (Zfloor (bpow radix2 h * (fval (merc_m tanf cosf logf (plat p)) / 2))) v (F_exact v (fval (palt p)))).
Proof. exact point_eid_partial. Qed.
Print Assumptions C01_point_voxel_partial.

(* ================= the run-time checker decides the specification ================= *)
(* point_id_spec is what the run-time `prop` can decide exactly: requested zooms, x and f equal to the exact floors, and for y ONLY
   0 <= y < 2^h (the exact row needs real arithmetic: step latcert).  It is deliberately weaker than the property's y clause. *)
Theorem C01_checker_sound : forall ps h v o, 0 <= h ->
  Forall (fun p => ffin (plon p) = true /\ ffin (palt p) = true) ps ->
  check_point_ids ps h v o = true <-> Forall2 (fun p s => point_id_spec p h v s) ps o.
Proof. exact check_point_ids_sound. Qed.
Print Assumptions C01_checker_sound.
(* its rational references are the exact floors *)
Theorem C01_reference_x_is_exact : forall lon h, 0 <= h -> ffin lon = true -> exact_x lon h = Some (X_exact h (fval lon)).
Proof. exact exact_x_spec. Qed.
Print Assumptions C01_reference_x_is_exact.
Theorem C01_reference_f_is_exact : forall alt v, ffin alt = true -> exact_f alt v = Some (F_exact v (fval alt)).
Proof. exact exact_f_spec. Qed.
Print Assumptions C01_reference_f_is_exact.

(* ================= NewPoint / SetLat: the stored latitude (finding class setlat_inexact, D20) ================= *)
(* cut lat s := |lat| - |s|.  The documented behaviour is 0 <= cut < 1e-10 ("cut toward zero by less than 1e-10 degrees") *)
Theorem C01_setlat_cut_partial : forall lat, ffin lat = true -> (Rabs (fval lat) <= 90)%R ->
  (- bpow radix2 (-46) <= Rabs (fval lat) - Rabs (fval (setlat_trunc lat)) <= 1 / 10 ^ 10 + bpow radix2 (-46))%R.
Proof. exact setlat_cut_bounds. Qed.
Print Assumptions C01_setlat_cut_partial.
Theorem C01_setlat_inexact_refuted :
  exists lat, ffin lat = true /\ (Rabs (fval lat) <= 85)%R /\
              ~ (0 <= Rabs (fval lat) - Rabs (fval (setlat_trunc lat)) < 1 / 10 ^ 10)%R.
Proof. exact setlat_inexact_refuted. Qed.
Print Assumptions C01_setlat_inexact_refuted.
Theorem C01_setlat_checker_sound : forall lat s, ffin lat = true -> ffin s = true ->
  exact_cut_ok lat s = true <-> (0 <= Rabs (fval lat) - Rabs (fval s) < 1 / 10 ^ 10)%R.
Proof. exact exact_cut_ok_spec. Qed.
Print Assumptions C01_setlat_checker_sound.

(* ================= object.Point setters (model: PointSetters.set_lon / set_lat / set_alt on the stored triple) ================= *)
(* SetAlt stores its argument unchanged — the same float, hence the same bits (NaN, -0, denormals included) —, leaves longitude and latitude
   alone and has no error result *)
Theorem C01_SetAlt_stores_bits_and_nothing_else : forall p alt,
  palt (set_alt p alt) = alt /\ feqb_bits (palt (set_alt p alt)) alt = true /\ plon (set_alt p alt) = plon p /\ plat (set_alt p alt) = plat p.
Proof. exact set_alt_frame. Qed.
Print Assumptions C01_SetAlt_stores_bits_and_nothing_else.
Theorem C01_SetAlt_last_write_wins : forall p a b, set_alt (set_alt p a) b = set_alt p b.
Proof. exact set_alt_last_wins. Qed.
Print Assumptions C01_SetAlt_last_write_wins.
(* SetLon: refused iff |lon| > 180 (on finite values the real comparison); accepted = bits stored, lat / alt untouched; refused = object unchanged *)
Theorem C01_SetLon_frame : forall p lon,
  (snd (set_lon p lon) = false -> plon (fst (set_lon p lon)) = lon /\ plat (fst (set_lon p lon)) = plat p /\ palt (fst (set_lon p lon)) = palt p) /\
  (snd (set_lon p lon) = true -> fst (set_lon p lon) = p) /\
  snd (set_lon p lon) = (180 <? abs lon)%float.
Proof. exact set_lon_frame. Qed.
Print Assumptions C01_SetLon_frame.
Theorem C01_SetLon_refuses_iff_beyond_180 : forall p lon, ffin lon = true -> snd (set_lon p lon) = true <-> (180 < Rabs (fval lon))%R.
Proof. exact set_lon_refuses_iff. Qed.
Print Assumptions C01_SetLon_refuses_iff_beyond_180.
(* SetLat: the request is cut to ten decimals first (F64.setlat_trunc), refused iff the CUT value exceeds the limit; accepted = the cut value
   stored, lon / alt untouched; refused = object unchanged; the stored magnitude is within [-2^-46, 1e-10 + 2^-46] of the request *)
Theorem C01_SetLat_frame : forall p lat,
  (snd (set_lat p lat) = false -> plat (fst (set_lat p lat)) = setlat_trunc lat /\ plon (fst (set_lat p lat)) = plon p /\ palt (fst (set_lat p lat)) = palt p) /\
  (snd (set_lat p lat) = true -> fst (set_lat p lat) = p) /\
  snd (set_lat p lat) = (c_latmax <? abs (setlat_trunc lat))%float.
Proof. exact set_lat_frame. Qed.
Print Assumptions C01_SetLat_frame.
Theorem C01_SetLat_stored_cut_partial : forall p lat, ffin lat = true -> (Rabs (fval lat) <= 90)%R -> snd (set_lat p lat) = false ->
  (- bpow radix2 (-46) <= Rabs (fval lat) - Rabs (fval (plat (fst (set_lat p lat)))) <= 1 / 10 ^ 10 + bpow radix2 (-46))%R.
Proof. exact set_lat_stored_cut. Qed.
Print Assumptions C01_SetLat_stored_cut_partial.
(* NewPoint is SetLon; SetLat; SetAlt on the zero object, stopping at the first refusal *)
Theorem C01_NewPoint_is_the_three_setters : forall lon lat alt,
  new_point lon lat alt =
  let '(p1, e1) := set_lon zero_point lon in
  if e1 then (p1, true) else let '(p2, e2) := set_lat p1 lat in if e2 then (p2, true) else (set_alt p2 alt, false).
Proof. exact new_point_is_setters. Qed.
Print Assumptions C01_NewPoint_is_the_three_setters.
(* setter sequences in any order: a field that no call of the sequence addresses is left exactly as it was, whatever else is called or
   refused; the altitude is the argument of the last SetAlt; one error flag per call *)
Theorem C01_setter_sequence_frame : forall l p,
  (forallb (fun s => negb (touches_lon s)) l = true -> plon (fst (run_setters p l)) = plon p) /\
  (forallb (fun s => negb (touches_lat s)) l = true -> plat (fst (run_setters p l)) = plat p) /\
  (forallb (fun s => negb (touches_alt s)) l = true -> palt (fst (run_setters p l)) = palt p).
Proof. exact run_setters_frame. Qed.
Print Assumptions C01_setter_sequence_frame.
Theorem C01_setter_sequence_last_SetAlt : forall l1 a l2 p,
  forallb (fun s => negb (touches_alt s)) l2 = true -> palt (fst (run_setters p (l1 ++ SAlt a :: l2))) = a.
Proof. exact run_setters_last_alt. Qed.
Print Assumptions C01_setter_sequence_last_SetAlt.

(* ================= getVerticalTileIdOnAltitude alone (hook VerifGetVerticalTileIdOnAltitude): the string "vZoom/f" ================= *)
Theorem C01_vertical_tile_id_partial : forall alt v, 0 <= v <= 35 -> ffin alt = true -> (Rabs (fval alt) <= bpow radix2 40)%R -> ~ alt_underflow alt v ->
  vertical_tile_id alt v = Some (join [print v; print (F_exact v (fval alt))]).
Proof. exact vertical_tile_id_exact. Qed.
Print Assumptions C01_vertical_tile_id_partial.
Theorem C01_vertical_tile_id_fields : forall alt v f, int64_ok v = true -> int64_ok f = true -> f_f alt v = Some f ->
  exists s, vertical_tile_id alt v = Some s /\ map parse (split s) = [Some v; Some f].
Proof. exact vertical_tile_id_fields. Qed.
Print Assumptions C01_vertical_tile_id_fields.

(* ================= non-vacuity ================= *)
(* half a metre below ground is layer -1 (truncation would say 0); -2^25 and -1 m are exact multiples of the cell height: layer -1;
   Tokyo station's longitude 139.7671; the float just below 180 (D11, fixed by 242c5f8) stays in the last column *)
Example C01_nonvacuous_f_below_ground : f_f (-0.5)%float 25 = Some (-1) /\ f_f (-33554432)%float 0 = Some (-1) /\ f_f (-1)%float 25 = Some (-1).
Proof. vm_compute. auto. Qed.
Example C01_nonvacuous_x : x_f 0x1.1788c154c985fp+7%float 25 = Some 29804453 /\ x_f 0x1.67fffffffffffp+7%float 0 = Some 0 /\ x_f 0x1.67fffffffffffp+7%float 35 = Some (2 ^ 35 - 1).
Proof. vm_compute. auto. Qed.
Example C01_nonvacuous_domain : exists p, pt_domain p /\ ~ x_rounding (fval (plon p)) 0 /\ ~ alt_underflow (palt p) 25.
Proof. exact pt_domain_example. Qed.
(* a setter sequence with two refusals (SetLon 181, SetLat 90) on a real-looking object; the vertical hook below ground and on both edges *)
Example C01_nonvacuous_setters :
  let p0 := fst (new_point 139.75%float 0x1.1d7318fc50481p+5%float 10%float) in
  let '(p, flags) := run_setters p0 [SAlt (-0.5)%float; SLon 181%float; SLat 0x1.9d13e90a263bdp+3%float; SLon (-180)%float; SLat 90%float; SAlt (-3)%float] in
  flags = [false; true; false; false; true; false] /\ feqb_bits (plon p) (-180)%float = true /\ feqb_bits (palt p) (-3)%float = true /\
  feqb_bits (plat p) 0x1.9d13e90a187d6p+3%float = true.
Proof. vm_compute. auto. Qed.
Example C01_nonvacuous_vertical_hook :
  vertical_tile_id (-0.5)%float 25 = Some "25/-1"%string /\ vertical_tile_id 33554432%float 3 = Some "3/8"%string /\
  vertical_tile_id (-33554432)%float 0 = Some "0/-1"%string.
Proof. exact vertical_tile_id_example. Qed.

(* ---- tie to the source by regeneration (DESIGN.md 4.2): shape.CheckZoom and the two literals of SetLat (the latitude limit and 10^10),
   read from /repo's current source on every run, are what the model uses ---- *)
From SIDGen Require Generated.
From SID Require GenEqCheck GenEqConstSetLat.
Theorem C01_generated_CheckZoom_is_the_model : forall z, Generated.CheckZoom z = Ids.check_zoom z.
Proof. exact GenEqCheck.gen_CheckZoom_eq. Qed.
Print Assumptions C01_generated_CheckZoom_is_the_model.
Theorem C01_generated_SetLat_literals : Generated.SetLat_limit = (850511287798, -10)%Z /\ Generated.SetLat_scale = (10 ^ 10)%Z.
Proof. exact GenEqConstSetLat.gen_SetLat_eq. Qed.
Print Assumptions C01_generated_SetLat_literals.

(* ================= the main results over the float kernels REGENERATED from /repo (SIDGen.GeneratedF, theories/GenC01.v) =================
   g_lonIndex / g_latIndex / g_vIndex are the locals lonIndex, latIndex of getHorizontalTileIdOnPoint and vIndex of getVerticalTileIdOnAltitude as
   translated from the Go source on every run; Ztrunc_f is Go's int64(.); M : libm is the record of Go's math functions (any). *)
From SIDGen Require GeneratedF.
From SID Require Import GenC01.
Theorem C01_gen_x_always_in_range : forall lon lat h, 0 <= h <= 35 -> ffin lon = true -> (-180 <= fval lon <= 180)%R ->
  exists x, Ztrunc_f (GeneratedF.getHorizontalTileIdOnPoint_lonIndex lon lat h) = Some x /\ 0 <= x < 2 ^ h.
Proof. exact gen_x_in_range. Qed.
Print Assumptions C01_gen_x_always_in_range.
Theorem C01_gen_x_is_exact_floor_partial : forall lon lat h, 0 <= h <= 35 -> ffin lon = true -> (-180 <= fval lon <= 180)%R ->
  ~ x_rounding (fval lon) h -> Ztrunc_f (GeneratedF.getHorizontalTileIdOnPoint_lonIndex lon lat h) = Some (X_exact h (fval lon)).
Proof. exact gen_x_exact_outside_class. Qed.
Print Assumptions C01_gen_x_is_exact_floor_partial.
Theorem C01_gen_x_within_one_column : forall lon lat h x, 0 <= h <= 35 -> ffin lon = true -> (-180 <= fval lon <= 180)%R ->
  Ztrunc_f (GeneratedF.getHorizontalTileIdOnPoint_lonIndex lon lat h) = Some x -> X_exact h (fval lon) - 1 <= x <= X_exact h (fval lon) + 1.
Proof. exact gen_x_within_one. Qed.
Print Assumptions C01_gen_x_within_one_column.
Theorem C01_gen_x_180_is_minus_180 : forall lat h, 0 <= h <= 35 ->
  Ztrunc_f (GeneratedF.getHorizontalTileIdOnPoint_lonIndex 180%float lat h) = Some 0 /\
  Ztrunc_f (GeneratedF.getHorizontalTileIdOnPoint_lonIndex (-180)%float lat h) = Some 0.
Proof. exact gen_x_180_is_minus_180. Qed.
Print Assumptions C01_gen_x_180_is_minus_180.
Theorem C01_gen_x_monotone : forall a b la lb h xa xb, 0 <= h <= 35 ->
  ffin a = true -> ffin b = true -> (-180 <= fval a <= 180)%R -> (-180 <= fval b <= 180)%R -> (lon_fold (fval a) <= lon_fold (fval b))%R ->
  Ztrunc_f (GeneratedF.getHorizontalTileIdOnPoint_lonIndex a la h) = Some xa ->
  Ztrunc_f (GeneratedF.getHorizontalTileIdOnPoint_lonIndex b lb h) = Some xb -> xa <= xb.
Proof. exact gen_x_monotone. Qed.
Print Assumptions C01_gen_x_monotone.
Theorem C01_gen_x_exact_on_column_boundaries : forall lon lat h j k, 0 <= h <= 35 -> 0 <= j <= 44 -> 0 <= k < 2 ^ j -> ffin lon = true ->
  fval lon = (IZR k * 360 / bpow radix2 j - 180)%R ->
  Ztrunc_f (GeneratedF.getHorizontalTileIdOnPoint_lonIndex lon lat h) = Some (Zfloor (IZR k * bpow radix2 (h - j))).
Proof. exact gen_x_on_boundary. Qed.
Print Assumptions C01_gen_x_exact_on_column_boundaries.
Theorem C01_gen_x_rounding_refuted :
  exists lon h, 0 <= h <= 35 /\ ffin lon = true /\ (-180 <= fval lon <= 180)%R /\ x_rounding (fval lon) h /\
                (forall lat, Ztrunc_f (GeneratedF.getHorizontalTileIdOnPoint_lonIndex lon lat h) = Some 4) /\ X_exact h (fval lon) = 3.
Proof. exact gen_x_rounding_refuted. Qed.
Print Assumptions C01_gen_x_rounding_refuted.
Theorem C01_gen_f_is_exact_floor_partial : forall alt v, 0 <= v <= 35 -> ffin alt = true -> (Rabs (fval alt) <= bpow radix2 40)%R ->
  ~ alt_underflow alt v ->
  Ztrunc_f (GeneratedF.getVerticalTileIdOnAltitude_vIndex alt v) = Some (Zfloor (fval alt * bpow radix2 v / bpow radix2 25)).
Proof. exact gen_f_exact. Qed.
Print Assumptions C01_gen_f_is_exact_floor_partial.
Theorem C01_gen_alt_underflow_refuted :
  exists alt v, 0 <= v <= 35 /\ ffin alt = true /\ (Rabs (fval alt) <= bpow radix2 25)%R /\ alt_underflow alt v /\
                Ztrunc_f (GeneratedF.getVerticalTileIdOnAltitude_vIndex alt v) = Some 0 /\ F_exact v (fval alt) = -1.
Proof. exact gen_f_underflow_refuted. Qed.
Print Assumptions C01_gen_alt_underflow_refuted.
Theorem C01_gen_top_edge_altitude : forall v, 0 <= v <= 35 -> Ztrunc_f (GeneratedF.getVerticalTileIdOnAltitude_vIndex 33554432%float v) = Some (2 ^ v).
Proof. exact gen_f_top_edge. Qed.
Print Assumptions C01_gen_top_edge_altitude.
(* latitude, for every libm record M; m is the code's float 1 - Log(Tan r + 1/Cos r)/Pi with r the regenerated DegreeToRadian *)
Theorem C01_gen_m_uses_generated_DegreeToRadian : forall M lat,
  merc_m (GeneratedF.m_tan M) (GeneratedF.m_cos M) (GeneratedF.m_log M) lat =
  (let r := GeneratedF.DegreeToRadian lat in 1 - GeneratedF.m_log M (GeneratedF.m_tan M r + 1 / GeneratedF.m_cos M r) / c_pi)%float.
Proof. exact merc_m_over_generated. Qed.
Print Assumptions C01_gen_m_uses_generated_DegreeToRadian.
Theorem C01_gen_y_rows_nested_and_in_range : forall M lon lat r,
  ffin (merc_m (GeneratedF.m_tan M) (GeneratedF.m_cos M) (GeneratedF.m_log M) lat) = true ->
  (Rabs (fval (merc_m (GeneratedF.m_tan M) (GeneratedF.m_cos M) (GeneratedF.m_log M) lat)) <= 4)%R ->
  Ztrunc_f (GeneratedF.getHorizontalTileIdOnPoint_latIndex M lon lat 35) = Some r -> 0 <= r < 2 ^ 35 ->
  forall h, 0 <= h <= 35 -> Ztrunc_f (GeneratedF.getHorizontalTileIdOnPoint_latIndex M lon lat h) = Some (anc (35 - h) r) /\ 0 <= anc (35 - h) r < 2 ^ h.
Proof. exact gen_y_nested. Qed.
Print Assumptions C01_gen_y_rows_nested_and_in_range.
Theorem C01_gen_y_all_zooms_from_certified_zoom35_partial : forall M lon lat (latR : R),
  ffin (merc_m (GeneratedF.m_tan M) (GeneratedF.m_cos M) (GeneratedF.m_log M) lat) = true ->
  (Rabs (fval (merc_m (GeneratedF.m_tan M) (GeneratedF.m_cos M) (GeneratedF.m_log M) lat)) <= 4)%R -> (Rabs latR <= lat_limit)%R ->
  Ztrunc_f (GeneratedF.getHorizontalTileIdOnPoint_latIndex M lon lat 35) = Some (Y_exact 35 latR) ->
  forall h, 0 <= h <= 35 -> Ztrunc_f (GeneratedF.getHorizontalTileIdOnPoint_latIndex M lon lat h) = Some (Y_exact h latR) /\ 0 <= Y_exact h latR < 2 ^ h.
Proof. exact gen_y_all_zooms_from_35. Qed.
Print Assumptions C01_gen_y_all_zooms_from_certified_zoom35_partial.
Theorem C01_gen_y_close_to_real_row_partial : forall M lon lat (latR : R) h, 0 <= h <= 35 ->
  ffin (merc_m (GeneratedF.m_tan M) (GeneratedF.m_cos M) (GeneratedF.m_log M) lat) = true -> (Rabs latR <= lat_limit)%R ->
  (Rabs (fval (merc_m (GeneratedF.m_tan M) (GeneratedF.m_cos M) (GeneratedF.m_log M) lat) / 2 - wfrac latR) <= bpow radix2 (-45))%R ->
  exists y, Ztrunc_f (GeneratedF.getHorizontalTileIdOnPoint_latIndex M lon lat h) = Some y /\ 0 <= y < 2 ^ h /\
            Y_exact h latR - 1 <= y <= Y_exact h latR + 1 /\ (~ y_rounding latR h -> y = Y_exact h latR).
Proof. exact gen_y_close. Qed.
Print Assumptions C01_gen_y_close_to_real_row_partial.
(* the model's voxel of a point is exactly the three regenerated indices, and outside the two classes they are the exact floors *)
Theorem C01_gen_point_eid_is_the_generated_kernels : forall M p h v,
  point_eid (GeneratedF.m_tan M) (GeneratedF.m_cos M) (GeneratedF.m_log M) p h v =
  match Ztrunc_f (GeneratedF.getHorizontalTileIdOnPoint_lonIndex (plon p) (plat p) h),
        Ztrunc_f (GeneratedF.getHorizontalTileIdOnPoint_latIndex M (plon p) (plat p) h),
        Ztrunc_f (GeneratedF.getVerticalTileIdOnAltitude_vIndex (palt p) v) with
  | Some x, Some y, Some f => Some (mk h x y v f)
  | _, _, _ => None
  end.
Proof. exact point_eid_over_generated. Qed.
Print Assumptions C01_gen_point_eid_is_the_generated_kernels.
Theorem C01_gen_point_voxel_partial : forall M p h v, 0 <= h <= 35 -> 0 <= v <= 35 ->
  pt_domain p -> ~ x_rounding (fval (plon p)) h -> ~ alt_underflow (palt p) v ->
  ffin (merc_m (GeneratedF.m_tan M) (GeneratedF.m_cos M) (GeneratedF.m_log M) (plat p)) = true ->
  (0 <= fval (merc_m (GeneratedF.m_tan M) (GeneratedF.m_cos M) (GeneratedF.m_log M) (plat p)) < 2)%R ->
  Ztrunc_f (GeneratedF.getHorizontalTileIdOnPoint_lonIndex (plon p) (plat p) h) = Some (X_exact h (fval (plon p))) /\
  Ztrunc_f (GeneratedF.getHorizontalTileIdOnPoint_latIndex M (plon p) (plat p) h) =
    Some (Zfloor (bpow radix2 h * (fval (merc_m (GeneratedF.m_tan M) (GeneratedF.m_cos M) (GeneratedF.m_log M) (plat p)) / 2))) /\
  Ztrunc_f (GeneratedF.getVerticalTileIdOnAltitude_vIndex (palt p) v) = Some (F_exact v (fval (palt p))).
Proof. exact gen_point_voxel_partial. Qed.
Print Assumptions C01_gen_point_voxel_partial.
(* the regenerated setters (receiver fields as a tuple, then the error flag) *)
Theorem C01_gen_SetLon_frame : forall a b c lon, ffin lon = true ->
  ((180 < Rabs (fval lon))%R -> GeneratedF.Point_SetLon a b c lon = (a, b, c, true)) /\
  ((Rabs (fval lon) <= 180)%R -> GeneratedF.Point_SetLon a b c lon = (lon, b, c, false)).
Proof. exact gen_SetLon_frame. Qed.
Print Assumptions C01_gen_SetLon_frame.
Theorem C01_gen_SetLat_frame_partial : forall a b c lat a' b' c' e, GeneratedF.Point_SetLat a b c lat = (a', b', c', e) ->
  a' = a /\ c' = c /\ (e = true -> b' = b) /\
  (e = false -> ffin lat = true -> (Rabs (fval lat) <= 90)%R ->
   b' = setlat_trunc lat /\ (- bpow radix2 (-46) <= Rabs (fval lat) - Rabs (fval b') <= 1 / 10 ^ 10 + bpow radix2 (-46))%R).
Proof. exact gen_SetLat_frame. Qed.
Print Assumptions C01_gen_SetLat_frame_partial.
Theorem C01_gen_NewPoint_stores_partial : forall lon lat alt p, ffin lat = true -> (Rabs (fval lat) <= 90)%R ->
  (let '(a, b, c, e1) := GeneratedF.Point_SetLon 0 0 0 lon in
   if e1 then ({| plon := a; plat := b; palt := c |}, true)
   else let '(a, b, c, e2) := GeneratedF.Point_SetLat a b c lat in
        if e2 then ({| plon := a; plat := b; palt := c |}, true) else ({| plon := a; plat := b; palt := alt |}, false)) = (p, false) ->
  plon p = lon /\ palt p = alt /\ plat p = setlat_trunc lat /\
  (- bpow radix2 (-46) <= Rabs (fval lat) - Rabs (fval (plat p)) <= 1 / 10 ^ 10 + bpow radix2 (-46))%R.
Proof. exact gen_NewPoint_stores. Qed.
Print Assumptions C01_gen_NewPoint_stores_partial.
Example C01_gen_nonvacuous :
  Ztrunc_f (GeneratedF.getHorizontalTileIdOnPoint_lonIndex 0x1.1788c154c985fp+7%float 0%float 25) = Some 29804453 /\
  Ztrunc_f (GeneratedF.getHorizontalTileIdOnPoint_lonIndex 0x1.67fffffffffffp+7%float 0%float 35) = Some (2 ^ 35 - 1) /\
  Ztrunc_f (GeneratedF.getVerticalTileIdOnAltitude_vIndex (-0.5)%float 25) = Some (-1) /\
  Ztrunc_f (GeneratedF.getVerticalTileIdOnAltitude_vIndex (-33554432)%float 0) = Some (-1) /\
  GeneratedF.Point_SetLon 1 2 3 181 = (1, 2, 3, true)%float /\ GeneratedF.Point_SetLon 1 2 3 (-180) = (-180, 2, 3, false)%float /\
  GeneratedF.Point_SetLat 1 2 3 0x1.9d13e90a263bdp+3 = (1, 0x1.9d13e90a187d6p+3, 3, false)%float.
Proof. exact gen_kernels_example. Qed.
