(* C12 — Altitude-key conversion never loses altitude and is exact where it can be.
   Only statements, `exact` proofs and Print Assumptions live here. Models: theories/AltKeyCore.v; specification and proofs: theories/AltKey.v.

   Vocabulary (AltKey.v): a scale s = (zoom sz, base exponent se, base offset so, signed?) cuts the altitude axis into the cells
        cell i = [ cell_lo s i, cell_hi s i ) = [ i*2^(se-sz) - so , (i+1)*2^(se-sz) - so )  metres,
   `pos t a` = (a + so t) * 2^(sz t - se t) is the coordinate of altitude a on scale t,  in_cell t j a <-> floor (pos t a) = j.
   sid_scale z = (z, 25, 0, signed): spatial-ID vertical indices -2^z .. 2^z-1;  key_scale z E O = (z, E, O, unsigned): keys 0 .. 2^z-1.
   For a source interval [A,B):  cov_min = floor(pos t A), cov_max = ceil(pos t B) - 1  (exact cover),
                                 wid_min = floor(pos t (floor A)), wid_max = ceil(pos t (ceil B)) - 1  (ends widened to whole metres).
   z2key f z out E O  = ConvertZToMinMaxAltitudekey(f, z, out, E, O);   key2z k kz out E O = ConvertAltitudekeyToMinMaxZ(k, kz, out, E, O).
   DOMAIN. Both exported conversions first refuse zooms outside 0..35 (shape.CheckZoom on the source and the target zoom, /repo 9dab435):
   z2key / key2z are Err there (C12_forward_bad_zoom, C12_backward_bad_zoom) and conv_spec demands exactly that. With the zooms in 0..35
   the theorems hold for ALL integers base exponent and offset. z2key_raw / key2z_raw / z2minkey / index_exists carry no guard and their
   theorems hold for all integers (in Coq 2^z = 0 for z < 0: no index exists at a negative zoom). These are statements about the Go code
   wherever no int64 operation wraps: C12_int64_* and C12_no_overflow_on_domain_* make that precise (base exponent in 0..35,
   |offset| <= 2^27 forward / 2^50 backward); C12_int64_overflow_refuted shows it fails beyond; C12_no_panic_* / C12_exponent_panic_refuted
   say where a panic is (un)reachable. *)
From Coq Require Import ZArith Reals Bool List String.
From Flocq Require Import Core.
From SID Require Import Base AltKeyCore AltKey AltKeyList DC12.
Open Scope Z_scope.

(* ---- what the covers mean ---- *)

(* target cell j intersects the altitude interval [A,B) iff it lies in the exact cover *)
Theorem C12_exact_cover_is_the_set_of_intersecting_cells : forall t A B j, (A < B)%R ->
  (exists a, (A <= a < B)%R /\ in_cell t j a) <-> cov_min t A <= j <= cov_max t B.
Proof. exact cover_meets. Qed.
Print Assumptions C12_exact_cover_is_the_set_of_intersecting_cells.

(* never loses altitude: a range reaching from at most cov_min to at least cov_max contains the cell of every altitude of [A,B) *)
Theorem C12_never_loses_altitude : forall t A B mn mx a, mn <= cov_min t A -> cov_max t B <= mx -> (A <= a < B)%R ->
  mn <= Zfloor (pos t a) <= mx.
Proof. exact cover_never_loses. Qed.
Print Assumptions C12_never_loses_altitude.

(* nothing beyond the metre-widened interval: every cell of a range inside the widened cover meets [floor A, ceil B) *)
Theorem C12_never_beyond_widened_cover : forall t A B mn mx j, wid_min t A <= mn -> mx <= wid_max t B -> (A < B)%R -> mn <= j <= mx ->
  exists a, (IZR (Zfloor A) <= a < IZR (Zceil B))%R /\ in_cell t j a.
Proof. exact cover_within_widened. Qed.
Print Assumptions C12_never_beyond_widened_cover.

(* the two covers coincide when the source cells or the target cells are at least one metre tall *)
Theorem C12_covers_coincide_when_a_metre_tall : forall s i t, (sz s <= se s \/ sz t <= se t) ->
  wid_min t (cell_lo s i) = cov_min t (cell_lo s i) /\ wid_max t (cell_hi s i) = cov_max t (cell_hi s i).
Proof. exact wid_eq_cov. Qed.
Print Assumptions C12_covers_coincide_when_a_metre_tall.

(* ---- both directions meet the specification (conv_spec, AltKey.v):
        Ok (mn,mx): both zooms are in 0..35, the source index exists, mn and mx exist at the target zoom, mn <= mx,
                    wid_min <= mn <= cov_min, cov_max <= mx <= wid_max;
        Err       : NOT (both zooms in 0..35 and the source index exists and the widened cover fits the target index range)        ---- *)
Theorem C12_forward_meets_spec : forall f z out E O, conv_spec (sid_scale z) f (key_scale out E O) (z2key f z out E O).
Proof. exact z2key_conv. Qed.
Print Assumptions C12_forward_meets_spec.

Theorem C12_backward_meets_spec : forall k kz out E O, conv_spec (key_scale kz E O) k (sid_scale out) (key2z k kz out E O).
Proof. exact key2z_conv. Qed.
Print Assumptions C12_backward_meets_spec.

(* any function meeting conv_spec reports an error when a zoom is outside 0..35, the index does not exist or the EXACT cover leaves the
   target range, and never when the zooms are in 0..35, the index exists and even the WIDENED cover fits *)
Theorem C12_spec_forces_error : forall s i t r, conv_spec s i t r ->
  (~ zooms_ok s t \/ ~ in_range s i \/ ~ (in_range t (cov_min t (cell_lo s i)) /\ in_range t (cov_max t (cell_hi s i)))) -> r = Err.
Proof. exact conv_spec_must_err. Qed.
Print Assumptions C12_spec_forces_error.
Theorem C12_spec_excludes_error : forall s i t r, conv_spec s i t r ->
  zooms_ok s t -> in_range s i -> in_range t (wid_min t (cell_lo s i)) -> in_range t (wid_max t (cell_hi s i)) -> exists mn mx, r = Ok (mn, mx).
Proof. exact conv_spec_must_ok. Qed.
Print Assumptions C12_spec_excludes_error.

(* ---- forward direction in detail: the result IS the exact cover (also for sub-metre voxels), error iff it cannot be returned ---- *)
Theorem C12_forward_is_exact_cover : forall f z out E O mn mx, z2key f z out E O = Ok (mn, mx) ->
  let s := sid_scale z in let t := key_scale out E O in
  mn = cov_min t (cell_lo s f) /\ mx = cov_max t (cell_hi s f) /\ mn <= mx /\ (- 2 ^ z <= f < 2 ^ z) /\ 0 <= mn /\ mx < 2 ^ out /\
  0 <= z <= 35 /\ 0 <= out <= 35.
Proof. exact z2key_ok. Qed.
Print Assumptions C12_forward_is_exact_cover.
Theorem C12_forward_err_iff : forall f z out E O,
  let s := sid_scale z in let t := key_scale out E O in
  z2key f z out E O = Err <->
  ~ (0 <= z <= 35 /\ 0 <= out <= 35) \/ ~ (- 2 ^ z <= f < 2 ^ z) \/ ~ (0 <= cov_min t (cell_lo s f) /\ cov_max t (cell_hi s f) < 2 ^ out).
Proof. exact z2key_err_iff. Qed.
Print Assumptions C12_forward_err_iff.
Theorem C12_forward_bad_zoom : forall f z out E O, ~ (0 <= z <= 35 /\ 0 <= out <= 35) -> z2key f z out E O = Err.
Proof. exact z2key_bad_zoom. Qed.
Print Assumptions C12_forward_bad_zoom.

(* ---- backward direction in detail: the result is the metre-widened cover; exact when key cells (kz <= E) or target cells (out <= 25)
        are at least one metre tall; error iff the key does not exist or the widened cover leaves [-2^out, 2^out) ---- *)
Theorem C12_backward_is_widened_cover_and_exact_when_a_metre_tall : forall k kz out E O mn mx, key2z k kz out E O = Ok (mn, mx) ->
  let s := key_scale kz E O in let t := sid_scale out in
  mn = wid_min t (cell_lo s k) /\ mx = wid_max t (cell_hi s k) /\
  mn <= cov_min t (cell_lo s k) /\ cov_max t (cell_hi s k) <= mx /\ mn <= mx /\
  ((kz <= E \/ out <= zorigin) -> mn = cov_min t (cell_lo s k) /\ mx = cov_max t (cell_hi s k)) /\
  0 <= k < 2 ^ kz /\ - 2 ^ out <= mn /\ mx < 2 ^ out /\ 0 <= kz <= 35 /\ 0 <= out <= 35.
Proof. exact key2z_ok. Qed.
Print Assumptions C12_backward_is_widened_cover_and_exact_when_a_metre_tall.
Theorem C12_backward_err_iff : forall k kz out E O,
  let s := key_scale kz E O in let t := sid_scale out in
  key2z k kz out E O = Err <->
  ~ (0 <= kz <= 35 /\ 0 <= out <= 35) \/ ~ (0 <= k < 2 ^ kz) \/ ~ (- 2 ^ out <= wid_min t (cell_lo s k) /\ wid_max t (cell_hi s k) < 2 ^ out).
Proof. exact key2z_err_iff. Qed.
Print Assumptions C12_backward_err_iff.
Theorem C12_backward_bad_zoom : forall k kz out E O, ~ (0 <= kz <= 35 /\ 0 <= out <= 35) -> key2z k kz out E O = Err.
Proof. exact key2z_bad_zoom. Qed.
Print Assumptions C12_backward_bad_zoom.
Theorem C12_backward_err_when_exact_cover_leaves : forall k kz out E O,
  let s := key_scale kz E O in let t := sid_scale out in
  ~ (- 2 ^ out <= cov_min t (cell_lo s k) /\ cov_max t (cell_hi s k) < 2 ^ out) -> key2z k kz out E O = Err.
Proof. exact key2z_err_when_exact_cover_leaves. Qed.
Print Assumptions C12_backward_err_when_exact_cover_leaves.

(* ---- mutual consistency (same key scale (kz,E,O), spatial zoom z) ---- *)
Theorem C12_mutual_consistency_exact : forall f z k kz E O a b c d,
  z2key f z kz E O = Ok (a, b) -> key2z k kz z E O = Ok (c, d) -> (kz <= E \/ z <= zorigin) -> (a <= k <= b <-> c <= f <= d).
Proof. exact mutual_exact. Qed.
Print Assumptions C12_mutual_consistency_exact.
Theorem C12_mutual_never_loses : forall f z k kz E O a b c d,
  z2key f z kz E O = Ok (a, b) -> key2z k kz z E O = Ok (c, d) -> a <= k <= b -> c <= f <= d.
Proof. exact mutual_never_loses. Qed.
Print Assumptions C12_mutual_never_loses.
Theorem C12_mutual_consistency_raw : forall f z k kz E O, (kz <= E \/ z <= zorigin) ->
  (fst (z2key_raw f z kz E O) <= k <= snd (z2key_raw f z kz E O) <-> fst (key2z_raw k kz z E O) <= f <= snd (key2z_raw k kz z E O)).
Proof. exact mutual_raw. Qed.
Print Assumptions C12_mutual_consistency_raw.
(* exact covers on any two scales are symmetric: both say "the two cells intersect" *)
Theorem C12_exact_covers_are_symmetric : forall s i t j,
  cov_min t (cell_lo s i) <= j <= cov_max t (cell_hi s i) <-> cov_min s (cell_lo t j) <= i <= cov_max s (cell_hi t j).
Proof. exact cover_symmetric. Qed.
Print Assumptions C12_exact_covers_are_symmetric.

(* ---- helpers ---- *)
Theorem C12_validate_index_exists : forall i z neg, index_exists i z neg = true <-> (if neg then - 2 ^ z else 0) <= i < 2 ^ z.
Proof. exact index_exists_spec. Qed.
Print Assumptions C12_validate_index_exists.
(* convertZToMinAltitudekey: Ok o -> index exists, o exists, wid_min <= o <= cov_min; Err -> not (index exists and wid_min exists) *)
Theorem C12_min_helper_spec : forall f z out E O, minkey_spec (sid_scale z) f (key_scale out E O) (z2minkey f z out E O).
Proof. exact z2minkey_conv. Qed.
Print Assumptions C12_min_helper_spec.
Theorem C12_min_helper_ok : forall f z out E O o, z2minkey f z out E O = Ok o ->
  let s := sid_scale z in let t := key_scale out E O in
  o = wid_min t (cell_lo s f) /\ o <= cov_min t (cell_lo s f) /\ ((z <= zorigin \/ out <= E) -> o = cov_min t (cell_lo s f)) /\
  (- 2 ^ z <= f < 2 ^ z) /\ 0 <= o < 2 ^ out.
Proof. exact z2minkey_ok. Qed.
Print Assumptions C12_min_helper_ok.

(* ---- the run-time checkers (integer arithmetic on dyadics scaled by a common power of two) decide the real-number specification ---- *)
Theorem C12_checker_sound : forall s i t r, check_conv s i t r = true <-> conv_spec s i t r.
Proof. exact check_conv_sound. Qed.
Print Assumptions C12_checker_sound.
Theorem C12_min_checker_sound : forall s i t r, check_minkey s i t r = true <-> minkey_spec s i t r.
Proof. exact check_minkey_sound. Qed.
Print Assumptions C12_min_checker_sound.
Theorem C12_roundtrip_law_holds_of_models : forall f z k kz E O,
  mutual_ok ((kz <=? E) || (z <=? zorigin)) f k (z2key f z kz E O) (key2z k kz z E O) = true.
Proof. exact mutual_ok_model. Qed.
Print Assumptions C12_roundtrip_law_holds_of_models.

(* ---- int64: the Go computation (z2key64m etc.: wrap-around and panic modelled, flag = no operation wrapped) ---- *)
Theorem C12_int64_forward_exact : forall f z out E O r, z2key64m f z out E O = Some (r, true) -> r = z2key f z out E O.
Proof. exact z2key64m_exact. Qed.
Print Assumptions C12_int64_forward_exact.
Theorem C12_int64_backward_exact : forall k kz out E O r, key2z64m k kz out E O = Some (r, true) -> r = key2z k kz out E O.
Proof. exact key2z64m_exact. Qed.
Print Assumptions C12_int64_backward_exact.
Theorem C12_int64_min_exact : forall f z out E O r, z2minkey64m f z out E O = Some (r, true) -> r = z2minkey f z out E O.
Proof. exact z2minkey64m_exact. Qed.
Print Assumptions C12_int64_min_exact.
Theorem C12_no_overflow_on_domain_forward : forall f z out E O,
  0 <= z <= 35 -> 0 <= out <= 35 -> 0 <= E <= 35 -> - 2 ^ 27 <= O <= 2 ^ 27 ->
  exists r, go_result (z2key64m f z out E O) = Some r /\ conv_spec (sid_scale z) f (key_scale out E O) r.
Proof. exact z2key64_domain_spec. Qed.
Print Assumptions C12_no_overflow_on_domain_forward.
Theorem C12_no_overflow_on_domain_backward : forall k kz out E O,
  0 <= kz <= 35 -> 0 <= out <= 35 -> 0 <= E <= 35 -> - 2 ^ 50 <= O <= 2 ^ 50 ->
  exists r, go_result (key2z64m k kz out E O) = Some r /\ conv_spec (key_scale kz E O) k (sid_scale out) r.
Proof. exact key2z64_domain_spec. Qed.
Print Assumptions C12_no_overflow_on_domain_backward.
(* a zoom outside 0..35 — any int64, MinInt64 included — is answered with an error before any shift: no wrap-around, no panic *)
Theorem C12_int64_bad_zoom_forward : forall f z out E O, ~ (0 <= z <= 35 /\ 0 <= out <= 35) -> z2key64m f z out E O = Some (Err, true).
Proof. exact z2key64m_bad_zoom. Qed.
Print Assumptions C12_int64_bad_zoom_forward.
Theorem C12_int64_bad_zoom_backward : forall k kz out E O, ~ (0 <= kz <= 35 /\ 0 <= out <= 35) -> key2z64m k kz out E O = Some (Err, true).
Proof. exact key2z64m_bad_zoom. Qed.
Print Assumptions C12_int64_bad_zoom_backward.
(* the exported conversions never panic (None) for any index, zooms and offset as long as |zBaseExponent| <= 2^62 ... *)
Theorem C12_no_panic_forward : forall f z out E O, - 2 ^ 62 <= E <= 2 ^ 62 -> z2key64m f z out E O <> None.
Proof. exact z2key64m_no_panic. Qed.
Print Assumptions C12_no_panic_forward.
Theorem C12_no_panic_backward : forall k kz out E O, - 2 ^ 62 <= E <= 2 ^ 62 -> key2z64m k kz out E O <> None.
Proof. exact key2z64m_no_panic. Qed.
Print Assumptions C12_no_panic_backward.
(* ... but zBaseExponent itself is not validated: MinInt64 + outputZoom (forward) / MinInt64 + key zoom (backward) makes the shift
   count MinInt64 and Go panics "negative shift amount" (part of finding class int64_overflow) *)
Theorem C12_exponent_panic_refuted :
  go_result (z2key64m 0 25 10 (- 2 ^ 63 + 10) 0) = None /\ go_result (key2z64m 0 3 25 (- 2 ^ 63 + 3) 0) = None.
Proof. exact exponent_panic_refuted. Qed.
Print Assumptions C12_exponent_panic_refuted.
(* finding class int64_overflow: inside the zoom domain, offset 2^29 *)
Theorem C12_int64_overflow_refuted :
  exists f z out E O, 0 <= z <= 35 /\ 0 <= out <= 35 /\ 0 <= E <= 35 /\ O = 2 ^ 29 /\
    go_result (z2key64m f z out E O) = Some (Ok (0, 2 ^ 35 - 1)) /\ z2key f z out E O = Err /\
    ~ conv_spec (sid_scale z) f (key_scale out E O) (Ok (0, 2 ^ 35 - 1)).
Proof. exact int64_overflow_refuted. Qed.
Print Assumptions C12_int64_overflow_refuted.
(* ... and in the backward direction, offset 2^54 *)
Theorem C12_int64_overflow_refuted_backward :
  exists k kz out E O, 0 <= kz <= 35 /\ 0 <= out <= 35 /\ 0 <= E <= 35 /\ O = 2 ^ 54 /\
    go_result (key2z64m k kz out E O) = Some (Ok (0, 1023)) /\ key2z k kz out E O = Err /\
    ~ conv_spec (key_scale kz E O) k (sid_scale out) (Ok (0, 1023)).
Proof. exact int64_overflow_refuted_backward. Qed.
Print Assumptions C12_int64_overflow_refuted_backward.
(* the run-time property decision of the dispatch entries (check_conv for |zBaseExponent| <= 64 and for bad zooms, "no wrap and equal to
   the int64 model" beyond) is sound for the specification *)
Theorem C12_dispatch_prop_sound : forall fwd i zs zt E O o,
  conv_prop fwd i zs zt E O (conv_model fwd i zs zt E O) o = true -> conv_spec (conv_src fwd zs E O) i (conv_tgt fwd zt E O) o.
Proof. exact conv_prop_sound. Qed.
Print Assumptions C12_dispatch_prop_sound.

(* ---- call histories. The property quantifies over every history of calls. The models are Coq functions, so their answer is a function
   of the step's own arguments; the entry "CallSequence" (DC12.v) carries a whole history [step ...] in one case, the implementation
   performs it back to back after a fixed priming call, and each step is judged by the dispatch entry of its own function:
   after ANY history the verdict of a step is step_verdict of its own arguments and observation, and a sequence without malformed steps
   passes iff each step passes as a standalone case. A stateful implementation (memo keyed on a subset of the arguments, value stored
   before validation, scratch not reset) therefore fails on a history although it passes on fresh single calls. ---- *)
Theorem C12_history_independent : forall (h h' : list (Wire.val * Wire.val)) st o,
  List.nth (List.length h) (step_verdicts (h ++ (st, o) :: nil)) Wire.bad_case = step_verdict st o /\
  List.nth (List.length h) (step_verdicts (h ++ (st, o) :: nil)) Wire.bad_case = List.nth (List.length h') (step_verdicts (h' ++ (st, o) :: nil)) Wire.bad_case.
Proof. exact sequence_history_independent. Qed.
Print Assumptions C12_history_independent.
Theorem C12_sequence_passes_iff_every_step_passes : forall h : list (Wire.val * Wire.val), existsb is_bad (step_verdicts h) = false ->
  ((Wire.v_corr (seq_verdict (step_verdicts h)) = true /\ Wire.v_prop (seq_verdict (step_verdicts h)) = true) <->
   Forall (fun so => Wire.v_corr (step_verdict (fst so) (snd so)) = true /\ Wire.v_prop (step_verdict (fst so) (snd so)) = true) h).
Proof. exact sequence_passes_iff. Qed.
Print Assumptions C12_sequence_passes_iff_every_step_passes.
(* a step is judged by the very entry that judges a standalone case of that function *)
Theorem C12_step_is_judged_as_a_standalone_case : forall fn args o,
  In fn ("ConvertZToMinMaxAltitudekey" :: "ConvertAltitudekeyToMinMaxZ" :: "convertZToMinAltitudekey" :: "validateIndexExists" :: nil)%string ->
  o <> Wire.VPanic -> step_verdict (Wire.VL (Wire.VS fn :: args)) o = Wire.run_table table_C12 no_oracle fn args o.
Proof. exact step_verdict_standalone. Qed.
Print Assumptions C12_step_is_judged_as_a_standalone_case.
(* non-vacuity: the history [z2key(4,3,23,26,3); z2key(4,0,23,26,3)] — same index, target zoom, exponent and offset, other source zoom.
   The true answers are Ok (2097152, 2621440) and an error (index 4 does not exist at zoom 0); an implementation that memoises on the
   four shared arguments repeats the first answer: the sequence fails, and it fails at its second step *)
Example C12_history_nonvacuous :
  let s1 := Wire.VL (Wire.VS "ConvertZToMinMaxAltitudekey" :: Wire.VZ 4 :: Wire.VZ 3 :: Wire.VZ 23 :: Wire.VZ 26 :: Wire.VZ 3 :: nil)%string in
  let s2 := Wire.VL (Wire.VS "ConvertZToMinMaxAltitudekey" :: Wire.VZ 4 :: Wire.VZ 0 :: Wire.VZ 23 :: Wire.VZ 26 :: Wire.VZ 3 :: nil)%string in
  let ok := Wire.VL (Wire.VZ 2097152 :: Wire.VZ 2621440 :: nil) in
  let err := Wire.VE (Wire.VL (Wire.VZ 0 :: Wire.VZ 0 :: nil)) in
  Wire.v_prop (d_sequence (Wire.VL (s1 :: s2 :: nil) :: nil) (Wire.VL (ok :: err :: nil))) = true /\
  Wire.v_corr (d_sequence (Wire.VL (s1 :: s2 :: nil) :: nil) (Wire.VL (ok :: err :: nil))) = true /\
  Wire.v_prop (d_sequence (Wire.VL (s1 :: s2 :: nil) :: nil) (Wire.VL (ok :: ok :: nil))) = false /\
  Wire.v_class (d_sequence (Wire.VL (s1 :: s2 :: nil) :: nil) (Wire.VL (ok :: ok :: nil))) = "-"%string /\
  Wire.v_prop (step_verdict s1 ok) = true /\ Wire.v_prop (step_verdict s2 ok) = false.
Proof. vm_compute. repeat split. Qed.

(* ---- the LIST API transform.ConvertExtendedSpatialIDsToQuadkeysAndAltitudekeys(ids, qZoom, kZoom, E, O), projected to the altitude keys
   (AltKeyList.v; lid = (hZoom, x, y, vZoom, f); the quadkey part is property C11's). The list model is the per-ID MAP of the single conversion:
   id_range kz E O i = z2key (f i) (vZoom i) kz E O after the zoom check of the ID — so the key range of an ID does not depend on the other IDs
   of the list, and any failing ID fails the call. A result cache keyed on less than (f, vZoom) breaks exactly this. ---- *)
Theorem C12_list_is_the_per_id_map : forall kz E O ids rs,
  list_ranges kz E O ids = Ok rs <-> Forall2 (fun i r => id_range kz E O i = Ok r) ids rs.
Proof. exact list_ranges_is_map. Qed.
Print Assumptions C12_list_is_the_per_id_map.
Theorem C12_list_err_iff_some_id_errs : forall kz E O ids,
  list_ranges kz E O ids = Err <-> Exists (fun i => id_range kz E O i = Err) ids.
Proof. exact list_ranges_err_iff. Qed.
Print Assumptions C12_list_err_iff_some_id_errs.
(* the same ID at position n of one list and position m of another list gets the same key range: its own single conversion *)
Theorem C12_list_range_independent_of_the_other_ids : forall kz E O ids ids' rs rs' n m i,
  list_ranges kz E O ids = Ok rs -> list_ranges kz E O ids' = Ok rs' ->
  nth_error ids n = Some i -> nth_error ids' m = Some i ->
  exists r, nth_error rs n = Some r /\ nth_error rs' m = Some r /\ id_range kz E O i = Ok r.
Proof. exact list_range_independent. Qed.
Print Assumptions C12_list_range_independent_of_the_other_ids.
Theorem C12_list_ranges_meet_spec : forall kz E O ids rs n i r,
  list_ranges kz E O ids = Ok rs -> nth_error ids n = Some i -> nth_error rs n = Some r ->
  conv_spec (sid_scale (lv i)) (lf i) (key_scale kz E O) (Ok r) /\ 0 <= lh i <= 35.
Proof. exact list_ranges_meet_spec. Qed.
Print Assumptions C12_list_ranges_meet_spec.
(* the run-time check of the observed groups decides the list-level reading of the property: per tile, every key of the exact cover of every ID
   is returned, every returned key lies in the widened cover of some ID of that tile, error clauses of conv_spec per ID *)
Theorem C12_list_checker_sound : forall qz kz E O ids obs, list_prop qz kz E O ids obs = true <-> list_spec qz kz E O ids obs.
Proof. exact list_prop_sound. Qed.
Print Assumptions C12_list_checker_sound.
(* without int64 wrap the list model executed by the dispatch entry is that per-ID map *)
Theorem C12_list_int64_exact : forall kz E O ids r, list_model64 kz E O ids = Some (r, true) -> r = list_ranges kz E O ids.
Proof. exact list_model64_exact. Qed.
Print Assumptions C12_list_int64_exact.
(* non-vacuity: the same f = 5 at vertical zooms 24 and 22 on one tile: two different ranges; f = 3 at zoom 1 after a valid ID: error *)
Example C12_list_nonvacuous :
  list_ranges 23 25 0 ((3, 1, 2, 24, 5) :: (3, 1, 2, 22, 5) :: nil) = Ok ((2, 2) :: (10, 11) :: nil) /\
  groups ((3, 1, 2, 24, 5) :: (3, 1, 2, 22, 5) :: nil) ((2, 2) :: (10, 11) :: nil) = (0, 2 :: nil) :: (0, 10 :: 11 :: nil) :: nil /\
  e2qa_ranges 2 2 24 0 ((2, 0, 0, 3, 3) :: (2, 1, 1, 1, 3) :: nil) = Err /\
  id_range 2 24 0 (2, 0, 0, 3, 3) = Ok (3, 3) /\ id_range 2 24 0 (2, 1, 1, 1, 3) = Err.
Proof. vm_compute. repeat split. Qed.

(* ---- non-vacuity and regression witnesses ---- *)
(* the four inputs on which the code before 84c8b2c lost altitude or refused valid input (known-findings.txt, fixed) *)
Example C12_repaired_witnesses :
  z2key 0 24 24 25 1 = Ok (0, 1) /\ z2key 4 26 17 11 0 = Ok (128, 159) /\ z2key 7 3 3 25 0 = Ok (7, 7) /\ z2key 0 1 24 24 0 = Ok (0, 2 ^ 24 - 1).
Proof. vm_compute. repeat split. Qed.
(* offsets that are not a multiple of the voxel height: the voxel covers two key cells *)
Example C12_odd_offsets : z2key 1 24 24 25 1 = Ok (1, 2) /\ z2key (-2) 23 22 25 13 = Ok (0, 1) /\ z2key 3 23 22 24 1 = Ok (3, 4).
Proof. vm_compute. repeat split. Qed.
(* both directions with the library's constant 2^24 at zoom 25: index 0 <-> key 2^24, and back *)
Example C12_round_trip_default : z2key 0 25 25 25 zbase_offset_neg = Ok (2 ^ 24, 2 ^ 24) /\ key2z (2 ^ 24) 25 25 25 zbase_offset_neg = Ok (0, 0).
Proof. vm_compute. split; reflexivity. Qed.
(* sub-metre on both sides: the backward direction returns the widened cover (0,1), the exact cover is (1,1) *)
Example C12_backward_widened_submetre :
  key2z 3 27 26 25 0 = Ok (0, 1) /\
  cov_min (sid_scale 26) (cell_lo (key_scale 27 25 0) 3) = 1 /\ cov_max (sid_scale 26) (cell_hi (key_scale 27 25 0) 3) = 1.
Proof. rewrite cov_min_z_spec, cov_max_z_spec. vm_compute. repeat split. Qed.
(* a key cell straddling the top of the target range is refused; so is one past the last index *)
Example C12_errors : key2z (2 ^ 20 - 1) 20 25 25 (-5) = Err /\ key2z 0 0 25 25 (-1) = Err /\ z2key 8 3 3 25 0 = Err /\ key2z 8 3 3 25 0 = Err.
Proof. vm_compute. repeat split. Qed.
(* outside the documented zoom range: refused (since 9dab435), also zoom 36, 63, MaxInt64 and MinInt64 (which used to panic);
   the unguarded helper validateIndexExists still panics on a zoom of MinInt64 and accepts every index at zoom 63 *)
Example C12_outside_domain :
  go_result (z2key64m 0 36 3 25 0) = Some Err /\ go_result (key2z64m 0 3 36 25 0) = Some Err /\
  go_result (z2key64m 0 (-1) 3 25 0) = Some Err /\ go_result (z2key64m 0 (- 2 ^ 63) 3 25 0) = Some Err /\
  go_result (key2z64m 0 3 (- 2 ^ 63) 25 0) = Some Err /\ go_result (key2z64m 0 63 3 25 0) = Some Err /\
  go_result (validatem 0 (- 2 ^ 63) true) = None /\ go_result (validatem 12345 63 false) = Some true.
Proof. vm_compute. repeat split. Qed.

(* ---- tie to the source by regeneration (DESIGN.md 4.2): the altitude-key kernels translated from /repo's current source
   (generated/Generated.v) are the AltKeyCore models the theorems above are stated on ---- *)
From SIDGen Require Generated.
From SID Require GenTac GenEqAlt.
Theorem C12_generated_forward_is_the_model : forall f z out E O,
  Generated.ConvertZToMinMaxAltitudekey f z out E O = GenTac.enc_zz (AltKeyCore.z2key f z out E O).
Proof. exact GenEqAlt.gen_ConvertZToMinMaxAltitudekey_eq. Qed.
Print Assumptions C12_generated_forward_is_the_model.
Theorem C12_generated_backward_is_the_model : forall k kz out E O,
  Generated.ConvertAltitudekeyToMinMaxZ k kz out E O = GenTac.enc_zz (AltKeyCore.key2z k kz out E O).
Proof. exact GenEqAlt.gen_ConvertAltitudekeyToMinMaxZ_eq. Qed.
Print Assumptions C12_generated_backward_is_the_model.
Theorem C12_generated_validateIndexExists_is_the_model : forall i z neg,
  Generated.validateIndexExists i z neg = (negb (AltKeyCore.index_exists i z neg), AltKeyCore.index_exists i z neg).
Proof. exact GenEqAlt.gen_validateIndexExists_eq. Qed.
Print Assumptions C12_generated_validateIndexExists_is_the_model.
Theorem C12_generated_min_helper_is_the_model : forall f z out E O,
  Generated.convertZToMinAltitudekey f z out E O = GenTac.enc_z (AltKeyCore.z2minkey f z out E O).
Proof. exact GenEqAlt.gen_convertZToMinAltitudekey_eq. Qed.
Print Assumptions C12_generated_min_helper_is_the_model.

(* ---- the same results stated of the REGENERATED INT64 kernels (generated/Generated64.v: the Go functions translated on every run with
   int64 wrap-around, shift semantics and panics explicit; Some (v, flag): flag = no operation wrapped; None = panic). Through
   GenEq64Alt.v (generated int64 code = the int64 models z2key64m ... above, proved) the int64 claims no longer rest on a hand-written
   model: theories/GenC12.v. Results are (min, max, err) triples, enc_zz (Ok (a,b)) = (a, b, false), enc_zz Err = (0, 0, true). ---- *)
From SID Require I64 GenC12.
Theorem C12_gen64_forward_meets_spec : forall f z out E O,
  0 <= z <= 35 -> 0 <= out <= 35 -> 0 <= E <= 35 -> - 2 ^ 27 <= O <= 2 ^ 27 ->
  exists r, Generated64.ConvertZToMinMaxAltitudekey f z out E O = Some (GenTac.enc_zz r, true) /\
            r = z2key f z out E O /\ conv_spec (sid_scale z) f (key_scale out E O) r.
Proof. exact GenC12.gen64_forward_meets_spec. Qed.
Print Assumptions C12_gen64_forward_meets_spec.
Theorem C12_gen64_backward_meets_spec : forall k kz out E O,
  0 <= kz <= 35 -> 0 <= out <= 35 -> 0 <= E <= 35 -> - 2 ^ 50 <= O <= 2 ^ 50 ->
  exists r, Generated64.ConvertAltitudekeyToMinMaxZ k kz out E O = Some (GenTac.enc_zz r, true) /\
            r = key2z k kz out E O /\ conv_spec (key_scale kz E O) k (sid_scale out) r.
Proof. exact GenC12.gen64_backward_meets_spec. Qed.
Print Assumptions C12_gen64_backward_meets_spec.
(* for ANY int64 arguments: a run without wrap returns the unbounded model's result, which meets the specification *)
Theorem C12_gen64_forward_exact_meets_spec : forall f z out E O v,
  Generated64.ConvertZToMinMaxAltitudekey f z out E O = Some (v, true) ->
  v = GenTac.enc_zz (z2key f z out E O) /\ conv_spec (sid_scale z) f (key_scale out E O) (z2key f z out E O).
Proof. exact GenC12.gen64_forward_exact_meets_spec. Qed.
Print Assumptions C12_gen64_forward_exact_meets_spec.
Theorem C12_gen64_backward_exact_meets_spec : forall k kz out E O v,
  Generated64.ConvertAltitudekeyToMinMaxZ k kz out E O = Some (v, true) ->
  v = GenTac.enc_zz (key2z k kz out E O) /\ conv_spec (key_scale kz E O) k (sid_scale out) (key2z k kz out E O).
Proof. exact GenC12.gen64_backward_exact_meets_spec. Qed.
Print Assumptions C12_gen64_backward_exact_meets_spec.
Theorem C12_gen64_min_helper_exact_meets_spec : forall f z out E O v,
  Generated64.convertZToMinAltitudekey f z out E O = Some (v, true) ->
  v = GenTac.enc_z (z2minkey f z out E O) /\ minkey_spec (sid_scale z) f (key_scale out E O) (z2minkey f z out E O).
Proof. exact GenC12.gen64_min_helper_exact_meets_spec. Qed.
Print Assumptions C12_gen64_min_helper_exact_meets_spec.
Theorem C12_gen64_shift_exact : forall i s v, Generated64.CalculateArithmeticShift i s = Some (v, true) -> v = ashift i s.
Proof. exact GenC12.gen64_shift_exact. Qed.
Print Assumptions C12_gen64_shift_exact.
Theorem C12_gen64_validate_spec : forall i z neg, 0 <= z <= 62 ->
  exists ok, Generated64.validateIndexExists i z neg = Some ((negb ok, ok), true) /\
             (ok = true <-> (if neg then - 2 ^ z else 0) <= i < 2 ^ z).
Proof. exact GenC12.gen64_validate_spec. Qed.
Print Assumptions C12_gen64_validate_spec.
Theorem C12_gen64_forward_bad_zoom : forall f z out E O, ~ (0 <= z <= 35 /\ 0 <= out <= 35) ->
  Generated64.ConvertZToMinMaxAltitudekey f z out E O = Some (GenTac.enc_zz Err, true).
Proof. exact GenC12.gen64_forward_bad_zoom. Qed.
Print Assumptions C12_gen64_forward_bad_zoom.
Theorem C12_gen64_backward_bad_zoom : forall k kz out E O, ~ (0 <= kz <= 35 /\ 0 <= out <= 35) ->
  Generated64.ConvertAltitudekeyToMinMaxZ k kz out E O = Some (GenTac.enc_zz Err, true).
Proof. exact GenC12.gen64_backward_bad_zoom. Qed.
Print Assumptions C12_gen64_backward_bad_zoom.
Theorem C12_gen64_forward_no_panic : forall f z out E O, - 2 ^ 62 <= E <= 2 ^ 62 -> Generated64.ConvertZToMinMaxAltitudekey f z out E O <> None.
Proof. exact GenC12.gen64_forward_no_panic. Qed.
Print Assumptions C12_gen64_forward_no_panic.
Theorem C12_gen64_backward_no_panic : forall k kz out E O, - 2 ^ 62 <= E <= 2 ^ 62 -> Generated64.ConvertAltitudekeyToMinMaxZ k kz out E O <> None.
Proof. exact GenC12.gen64_backward_no_panic. Qed.
Print Assumptions C12_gen64_backward_no_panic.
Theorem C12_gen64_exponent_panic_refuted :
  Generated64.ConvertZToMinMaxAltitudekey 0 25 10 (- 2 ^ 63 + 10) 0 = None /\
  Generated64.ConvertAltitudekeyToMinMaxZ 0 3 25 (- 2 ^ 63 + 3) 0 = None.
Proof. exact GenC12.gen64_exponent_panic. Qed.
Print Assumptions C12_gen64_exponent_panic_refuted.
(* finding class int64_overflow on the generated kernels: wrong Ok answers (flag off) where the specification and the unbounded kernel say error *)
Theorem C12_gen64_overflow_refuted_forward :
  Generated64.ConvertZToMinMaxAltitudekey 0 25 35 0 (2 ^ 29) = Some ((0, 2 ^ 35 - 1, false), false) /\
  Generated.ConvertZToMinMaxAltitudekey 0 25 35 0 (2 ^ 29) = (0, 0, true) /\
  ~ conv_spec (sid_scale 25) 0 (key_scale 35 0 (2 ^ 29)) (Ok (0, 2 ^ 35 - 1)).
Proof. exact GenC12.gen64_overflow_forward. Qed.
Print Assumptions C12_gen64_overflow_refuted_forward.
Theorem C12_gen64_overflow_refuted_backward :
  Generated64.ConvertAltitudekeyToMinMaxZ 0 0 35 0 (2 ^ 54) = Some ((0, 1023, false), false) /\
  Generated.ConvertAltitudekeyToMinMaxZ 0 0 35 0 (2 ^ 54) = (0, 0, true) /\
  ~ conv_spec (key_scale 0 0 (2 ^ 54)) 0 (sid_scale 35) (Ok (0, 1023)).
Proof. exact GenC12.gen64_overflow_backward. Qed.
Print Assumptions C12_gen64_overflow_refuted_backward.
(* the domain bounds are sufficient, not tight: first forward wrap at offset 7 * 2^25 (harmless: an error either way) *)
Theorem C12_gen64_first_forward_wrap :
  I64.fits (Generated64.ConvertZToMinMaxAltitudekey (2 ^ 35 - 1) 35 35 0 (7 * 2 ^ 25)) = false /\
  I64.fits (Generated64.ConvertZToMinMaxAltitudekey (2 ^ 35 - 1) 35 35 0 (7 * 2 ^ 25 - 1)) = true /\
  I64.go_value (Generated64.ConvertZToMinMaxAltitudekey (2 ^ 35 - 1) 35 35 0 (7 * 2 ^ 25)) = Some (0, 0, true).
Proof. exact GenC12.gen64_first_forward_wrap. Qed.
Print Assumptions C12_gen64_first_forward_wrap.
Example C12_gen64_nonvacuous :
  Generated64.ConvertZToMinMaxAltitudekey 0 25 25 25 (2 ^ 24) = Some ((2 ^ 24, 2 ^ 24, false), true) /\
  Generated64.ConvertAltitudekeyToMinMaxZ (2 ^ 24) 25 25 25 (2 ^ 24) = Some ((0, 0, false), true) /\
  Generated64.ConvertZToMinMaxAltitudekey 1 24 24 25 1 = Some ((1, 2, false), true) /\
  Generated64.ConvertZToMinMaxAltitudekey 0 36 3 25 0 = Some ((0, 0, true), true) /\
  Generated64.ConvertZToMinMaxAltitudekey 0 (- 2 ^ 63) 3 25 0 = Some ((0, 0, true), true).
Proof. exact GenC12.gen64_nonvacuous. Qed.
