(* C04 — Merging never changes the covered region, merges all it can, and is idempotent.
   Only statements, `exact` proofs and Print Assumptions live here.
   Model: theories/Merge.v (integrate/merge_zoom.go as written; `ord` = any iteration order of the Go maps).
   Proofs: theories/MergeProof.v, MergeRegion.v, MergeIdem.v, MergeCheckProof.v, MergeApi.v.
   Vocabulary: `inR i p` — the point p of normalised space lies in voxel i (Voxel.v); `elig H V i` — i is at zooms equal or finer than
   the target (H, V) on both axes; `tgt H V i` — the ancestor of i at the target zooms (floor on all three axes);
   `fullS H V ids T` — every point of voxel T lies in some member of ids of equal or finer zoom ("completely filled");
   `S H V ids` — the specification set: ineligible inputs unchanged, filled target voxels, members of unfilled target voxels unchanged;
   `wfz i` — zooms and x, y non-negative (weaker than `valid`; no bound on list length, zooms or indices anywhere). *)
From Coq Require Import ZArith List Lia Permutation String.
From SID Require Import Base Str Ids Voxel ZoomCore Wire Merge MergeCheck MergeProof MergeRegion MergeIdem MergeCheckProof MergeApi MergeHelpers MergeHistory.
Import ListNotations.
Open Scope Z_scope.

(* 1. What is returned: for every input list the result is exactly the specification set — every target-zoom voxel completely
      filled by inputs of equal or finer zoom is returned in place of those inputs, every other input is returned unchanged,
      nothing else is returned. *)
Theorem C04_merge_is_the_specification_set :
  forall (ord : list eid -> list eid), (forall l, Permutation (ord l) l) ->
  forall H V, 0 <= H -> 0 <= V -> forall ids, (forall i, In i ids -> wfz i) ->
  forall o, In o (merge ord H V ids) <-> S H V (fun i => In i ids) o.
Proof. exact merge_is_S. Qed.
Print Assumptions C04_merge_is_the_specification_set.

(* 2. The covered region is unchanged: a point lies in some returned voxel iff it lies in some input voxel. *)
Theorem C04_region_unchanged :
  forall (ord : list eid -> list eid), (forall l, Permutation (ord l) l) ->
  forall H V, 0 <= H -> 0 <= V -> forall ids, (forall i, In i ids -> wfz i) ->
  forall p, (exists o, In o (merge ord H V ids) /\ inR o p) <-> (exists i, In i ids /\ inR i p).
Proof. exact merge_region. Qed.
Print Assumptions C04_region_unchanged.

(* 3. No duplicates, for every input whatsoever. *)
Theorem C04_no_duplicates :
  forall (ord : list eid -> list eid), (forall l, Permutation (ord l) l) -> forall H V ids, NoDup (merge ord H V ids).
Proof. exact merge_NoDup. Qed.
Print Assumptions C04_no_duplicates.

(* 4. The clauses of the property one by one. *)
Theorem C04_coarser_inputs_unchanged :
  forall (ord : list eid -> list eid), (forall l, Permutation (ord l) l) ->
  forall H V, 0 <= H -> 0 <= V -> forall ids, (forall i, In i ids -> wfz i) ->
  forall i, In i ids -> ~ elig H V i -> In i (merge ord H V ids).
Proof. exact merge_keeps_ineligible. Qed.
Print Assumptions C04_coarser_inputs_unchanged.

Theorem C04_filled_voxel_replaces_its_members :
  forall (ord : list eid -> list eid), (forall l, Permutation (ord l) l) ->
  forall H V, 0 <= H -> 0 <= V -> forall ids, (forall i, In i ids -> wfz i) ->
  forall i, In i ids -> elig H V i -> fullS H V (fun j => In j ids) (tgt H V i) ->
  In (tgt H V i) (merge ord H V ids) /\ (i <> tgt H V i -> ~ In i (merge ord H V ids)).
Proof. exact merge_replaces_filled. Qed.
Print Assumptions C04_filled_voxel_replaces_its_members.

Theorem C04_members_of_unfilled_voxel_unchanged :
  forall (ord : list eid -> list eid), (forall l, Permutation (ord l) l) ->
  forall H V, 0 <= H -> 0 <= V -> forall ids, (forall i, In i ids -> wfz i) ->
  forall i, In i ids -> elig H V i -> ~ fullS H V (fun j => In j ids) (tgt H V i) -> In i (merge ord H V ids).
Proof. exact merge_keeps_unfilled. Qed.
Print Assumptions C04_members_of_unfilled_voxel_unchanged.

Theorem C04_nothing_else_is_returned :
  forall (ord : list eid -> list eid), (forall l, Permutation (ord l) l) ->
  forall H V, 0 <= H -> 0 <= V -> forall ids, (forall i, In i ids -> wfz i) ->
  forall o, In o (merge ord H V ids) ->
  In o ids \/ exists i, In i ids /\ elig H V i /\ o = tgt H V i /\ fullS H V (fun j => In j ids) o.
Proof. exact merge_only. Qed.
Print Assumptions C04_nothing_else_is_returned.

(* 5. Merging the result again changes nothing (as sets; the two runs may iterate their maps in different orders). *)
Theorem C04_idempotent :
  forall ord1 ord2, (forall l : list eid, Permutation (ord1 l) l) -> (forall l : list eid, Permutation (ord2 l) l) ->
  forall H V ids, 0 <= H -> 0 <= V -> (forall i, In i ids -> wfz i) ->
  forall o, In o (merge ord2 H V (merge ord1 H V ids)) <-> In o (merge ord1 H V ids).
Proof. exact merge_idem. Qed.
Print Assumptions C04_idempotent.

(* 6. The rule is the same above and below ground: translating every input vertically by k whole zoom-0 cells (k of any sign,
      f ↦ f + k·2^v at vertical zoom v) translates the result by the same amount. *)
Theorem C04_same_above_and_below_ground :
  forall ord1 ord2, (forall l : list eid, Permutation (ord1 l) l) -> (forall l : list eid, Permutation (ord2 l) l) ->
  forall H V k ids, 0 <= H -> 0 <= V -> (forall i, In i ids -> wfz i) ->
  forall o, In o (merge ord1 H V (map (shiftf k) ids)) <-> In o (map (shiftf k) (merge ord2 H V ids)).
Proof. exact merge_translation. Qed.
Print Assumptions C04_same_above_and_below_ground.

(* 7. The result depends on the input only as a set: order and repetitions of the input list are irrelevant. *)
Theorem C04_input_order_and_duplicates_irrelevant :
  forall ord1 ord2, (forall l : list eid, Permutation (ord1 l) l) -> (forall l : list eid, Permutation (ord2 l) l) ->
  forall H V l1 l2, 0 <= H -> 0 <= V -> (forall i, In i l1 -> wfz i) -> (forall i, In i l1 <-> In i l2) ->
  forall o, In o (merge ord1 H V l1) <-> In o (merge ord2 H V l2).
Proof. exact merge_set_ext. Qed.
Print Assumptions C04_input_order_and_duplicates_irrelevant.

(* 8. Valid inputs give valid outputs. *)
Theorem C04_outputs_valid :
  forall (ord : list eid -> list eid), (forall l, Permutation (ord l) l) ->
  forall H V ids, 0 <= H -> 0 <= V -> (forall i, In i ids -> valid i) -> forall o, In o (merge ord H V ids) -> valid o.
Proof. exact merge_valid. Qed.
Print Assumptions C04_outputs_valid.

(* 9. The algorithm's density test (number of distinct unit cells = 4^dh·2^dv) is a covering test. *)
Theorem C04_count_test_is_covering_test :
  forall MH MV T (grp : list eid), eh T <= MH -> ev T <= MV ->
  (forall i, In i grp -> incl (units MH MV i) (units MH MV T)) ->
  (Z.of_nat (List.length (nodupb eid_eqb (flat_map (units MH MV) grp))) = 2 ^ (MH - eh T) * 2 ^ (MH - eh T) * 2 ^ (MV - ev T)
   <-> incl (units MH MV T) (flat_map (units MH MV) grp)).
Proof. exact dense_iff. Qed.
Print Assumptions C04_count_test_is_covering_test.

(* 10. ExtendedSpatialID.Higher is the floor ancestor on all three axes (x, y by truncating division of non-negative numbers,
       the vertical index by arithmetic shift — also for negative indices). *)
Theorem C04_Higher_is_floor_ancestor :
  forall i hd vd, 0 <= hd -> 0 <= vd -> 0 <= ex i -> 0 <= ey i ->
  higher i hd vd = {| eh := eh i - hd; ex := anc hd (ex i); ey := anc hd (ey i); ev := ev i - vd; ef := anc vd (ef i) |}.
Proof. exact higher_anc. Qed.
Print Assumptions C04_Higher_is_floor_ancestor.

(* 10b. Why the floor matters (the defect repaired by 27792ec in /repo): truncation sends the vertical index -1 to 0, and the voxel
        1/0/0/0/0 shares no point with 1/0/0/1/-1, whereas the floor ancestor 1/0/0/0/-1 contains it. *)
Theorem C04_truncating_ancestor_refuted :
  Z.quot (-1) (2 ^ 1) = 0 /\ anc 1 (-1) = -1 /\
  (forall p, inR (mk 1 0 0 1 (-1)) p -> ~ inR (mk 1 0 0 0 0) p) /\
  (forall p, inR (mk 1 0 0 1 (-1)) p -> inR (mk 1 0 0 0 (-1)) p).
Proof. exact truncation_refuted. Qed.
Print Assumptions C04_truncating_ancestor_refuted.

(* 11. The exported functions on printed valid IDs, and their error paths. *)
(* `merge_ext_api` runs the code-level merge `merge64` (threshold computed with two wrapping int64 multiplications, as the Go code does);
   `fits64 H V l` = the threshold exponent 2*max(0,MH-H) + max(0,MV-V) is at most 62, i.e. the int64 product does not wrap *)
Theorem C04_MergeExtendedSpatialIds_on_valid_ids :
  forall l H V, 0 <= H <= 35 -> 0 <= V <= 35 -> (forall i, In i l -> valid i) -> fits64 H V l ->
  merge_ext_api (map print_eid l) H V = Ok (map print_eid (merge_x H V l)).
Proof. exact merge_ext_api_ok. Qed.
Print Assumptions C04_MergeExtendedSpatialIds_on_valid_ids.

(* any accepted spelling of the IDs ("+1", "007", "-0"): the function works on the parsed records and prints canonically *)
Theorem C04_MergeExtendedSpatialIds_any_spelling :
  forall s l H V, 0 <= H <= 35 -> 0 <= V <= 35 -> parse_all s = Some l ->
  merge_ext_api s H V = Ok (map print_eid (merge_x64 H V l)).
Proof. exact merge_ext_api_parsed. Qed.
Print Assumptions C04_MergeExtendedSpatialIds_any_spelling.

(* the int64 threshold: within the bound the code-level merge IS the mathematical merge of theorems 1-9 (same list, any order) *)
Theorem C04_int64_threshold_within_bound :
  forall ord H V ids, fits64 H V ids -> merge64 ord H V ids = merge ord H V ids.
Proof. exact merge64_merge. Qed.
Print Assumptions C04_int64_threshold_within_bound.

(* beyond the bound the wrapped threshold is 0 or -2^63, so the code merges no non-empty group there; on the mathematical side a
   target voxel with 2^63 or more unit cells could only be filled by that many enumerated cells (outside any int64-indexed run):
   this coincidence is an assumption of the run-time check (meta assumption 1), not a theorem *)
Theorem C04_int64_threshold_beyond_bound :
  forall H V MH MV, 0 <= MH - H -> 0 <= MV - V -> 63 <= 2 * (MH - H) + (MV - V) -> thr64 H V MH MV <= 0.
Proof. exact thr64_big. Qed.
Print Assumptions C04_int64_threshold_beyond_bound.

Theorem C04_MergeSpatialIds_on_valid_ids :
  forall l z, 0 <= z <= 35 -> (forall i, In i l -> valid i /\ ev i = eh i) -> fits64 z z l ->
  merge_sid_api (map print_sid l) z = Ok (map print_sid (merge_x z z l)).
Proof. exact merge_sid_api_ok. Qed.
Print Assumptions C04_MergeSpatialIds_on_valid_ids.

Theorem C04_MergeSpatialIds_results_have_equal_zooms :
  forall l z, 0 <= z -> (forall i, In i l -> valid i /\ ev i = eh i) -> forall o, In o (merge_x z z l) -> ev o = eh o.
Proof. exact merge_sid_zooms. Qed.
Print Assumptions C04_MergeSpatialIds_results_have_equal_zooms.

Theorem C04_bad_target_zoom_is_an_error :
  forall ids H V, ~ (0 <= H <= 35 /\ 0 <= V <= 35) -> merge_ext_api ids H V = Err.
Proof. exact merge_ext_api_bad_zoom. Qed.
Print Assumptions C04_bad_target_zoom_is_an_error.

Theorem C04_malformed_id_is_an_error :
  forall ids H V s, In s ids -> parse_eid s = None -> merge_ext_api ids H V = Err.
Proof. exact merge_ext_api_malformed. Qed.
Print Assumptions C04_malformed_id_is_an_error.

(* 12. The run-time checker applied to the implementation's output decides exactly the specification (sound and complete),
       and an accepted output has the same covered region as the input and is a fixed point of the model's merge. *)
Theorem C04_checker_decides_the_specification :
  forall H V, 0 <= H -> 0 <= V -> forall ids, (forall i, In i ids -> wfz i) ->
  forall obs, check_merge H V ids obs = true <-> NoDup obs /\ (forall o, In o obs <-> S H V (fun i => In i ids) o).
Proof. exact check_merge_correct. Qed.
Print Assumptions C04_checker_decides_the_specification.

Theorem C04_checker_sound :
  forall H V, 0 <= H -> 0 <= V -> forall ids, (forall i, In i ids -> wfz i) ->
  forall obs, check_merge H V ids obs = true ->
  NoDup obs /\
  (forall o, In o obs <-> S H V (fun i => In i ids) o) /\
  (forall p, (exists o, In o obs /\ inR o p) <-> (exists i, In i ids /\ inR i p)) /\
  (forall o, In o (merge_x H V obs) <-> In o obs).
Proof. exact check_merge_sound. Qed.
Print Assumptions C04_checker_sound.

Theorem C04_verdict_meaning :
  forall l H V o, 0 <= H <= 35 -> 0 <= V <= 35 -> (forall i, In i l -> valid i) ->
  (prop_ext (map print_eid l) H V (of_LS o) = true <->
   exists oo, parse_all o = Some oo /\ map print_eid oo = o /\ NoDup oo /\ forall x, In x oo <-> S H V (fun i => In i l) x).
Proof. exact prop_ext_correct. Qed.
Print Assumptions C04_verdict_meaning.

Theorem C04_verdict_accepts_the_model :
  forall l H V, 0 <= H <= 35 -> 0 <= V <= 35 -> (forall i, In i l -> valid i) -> fits64 H V l ->
  prop_ext (map print_eid l) H V (of_LS (map print_eid (merge_x64 H V l))) = true.
Proof. exact prop_ext_accepts_model. Qed.
Print Assumptions C04_verdict_accepts_the_model.


(* ---- 13. The exported merge helpers as stand-alone API (theories/MergeHelpers.v: maps are heap cells; NewHighSpatialID copies its argument's
   unit map into a fresh cell, /repo 06056a1) ---- *)
(* NewUnitDividedSpatialID with the differences the merge passes enumerates exactly Merge.units *)
Theorem C04_NewUnitDividedSpatialID_is_units : forall MH MV i, units_d i (MH - eh i) (MV - ev i) = units MH MV i.
Proof. exact units_d_units. Qed.
Print Assumptions C04_NewUnitDividedSpatialID_is_units.

(* r.Merge(a) on any heap: the receiver's cell holds the union, the argument's unit set keeps exactly its members, cells other than
   the receiver's are untouched *)
Theorem C04_Merge_union_and_argument_unchanged : forall s r a, (g_map (nth r (highs s) high0) < List.length (heap s))%nat ->
  hunits (merge_op s r a) r = uunion (hunits s r) (hunits s a) /\
  (forall c, In c (hunits (merge_op s r a) r) <-> In c (hunits s r) \/ In c (hunits s a)) /\
  (forall c, In c (hunits (merge_op s r a) a) <-> In c (hunits s a)) /\
  (forall k, g_map (nth k (highs s) high0) <> g_map (nth r (highs s) high0) -> hunits (merge_op s r a) k = hunits s k) /\
  (forall k, g_map (nth k (highs s) high0) = g_map (nth r (highs s) high0) -> hunits (merge_op s r a) k = uunion (hunits s r) (hunits s a)).
Proof. exact merge_op_spec. Qed.
Print Assumptions C04_Merge_union_and_argument_unchanged.

(* since /repo 06056a1 NewHighSpatialID copies its argument's unit map: every constructed object owns its map (`fresh_maps`), this
   is kept by Merge, and therefore r.Merge(a) changes NO other object: not the argument, not another HighSpatialID (even one built
   from the same unit object), not any UnitDividedSpatialID *)
Theorem C04_constructed_objects_own_their_maps :
  (forall us hs, fresh_maps (init_st us hs)) /\ (forall s r a, fresh_maps s -> fresh_maps (merge_op s r a)).
Proof. exact (conj init_fresh merge_op_fresh). Qed.
Print Assumptions C04_constructed_objects_own_their_maps.

(* since /repo 24349d1 NewUnitDividedSpatialID keeps its own copy of the *ExtendedSpatialID argument: setters on the constructed
   unit object (SetX, SetZoom) never change an argument object, and change only that unit's own copy *)
Theorem C04_constructed_units_own_their_ID :
  (forall s sp, orig (set_unit s sp) = orig s) /\
  (forall us sets, orig (run_sets us sets) = map (fun '(i, _, _) => i) us) /\
  (forall s j x hz vz, (j < List.length (own s))%nat ->
     nth j (own (set_unit s (j, x, hz, vz))) (mk 0 0 0 0 0) =
       (let i := nth j (own s) (mk 0 0 0 0 0) in {| eh := hz; ex := x; ey := ey i; ev := vz; ef := ef i |}) /\
     forall k, k <> j -> nth k (own (set_unit s (j, x, hz, vz))) (mk 0 0 0 0 0) = nth k (own s) (mk 0 0 0 0 0)).
Proof. exact (conj set_unit_orig (conj run_sets_orig set_unit_own)). Qed.
Print Assumptions C04_constructed_units_own_their_ID.

Theorem C04_Merge_changes_only_the_receiver : forall s r a, fresh_maps s -> (r < List.length (highs s))%nat ->
  hunits (merge_op s r a) r = uunion (hunits s r) (hunits s a) /\
  (forall k, k <> r -> (k < List.length (highs s))%nat -> hunits (merge_op s r a) k = hunits s k) /\
  (forall j, (j < n_units s)%nat -> nth j (heap (merge_op s r a)) [] = nth j (heap s) []).
Proof. exact merge_op_isolated. Qed.
Print Assumptions C04_Merge_changes_only_the_receiver.

Theorem C04_Merge_appends_lowIDs : forall s r a, (r < List.length (highs s))%nat ->
  g_low (nth r (highs (merge_op s r a)) high0) = (g_low (nth r (highs s) high0) ++ g_low (nth a (highs s) high0))%list /\
  forall k, k <> r -> nth k (highs (merge_op s r a)) high0 = nth k (highs s) high0.
Proof. exact merge_op_low. Qed.
Print Assumptions C04_Merge_appends_lowIDs.

(* IsDense is the count test *)
Theorem C04_IsDense_is_count_test : forall s k,
  is_dense s k = true <-> Z.of_nat (List.length (hunits s k)) = g_thr (nth k (highs s) high0).
Proof. exact is_dense_count. Qed.
Print Assumptions C04_IsDense_is_count_test.

(* the helpers composed the way MergeExtendedSpatialIds drives them (one private unit object per member, all merged into the first)
   give, for one group, the ID, lowIDs, threshold and density verdict of the model's merge — which C04_count_test_is_covering_test
   and C04_merge_is_the_specification_set read as "the group covers its target voxel" *)
Theorem C04_helper_composition_is_one_group_of_merge : forall H V MH MV el T i0 rest, group H V el T = i0 :: rest ->
  let r := compose H V MH MV i0 rest in
  p_id r = target H V i0 /\ p_low r = group H V el T /\ p_thr r = thr H V MH MV /\ hp_dense r = dense H V MH MV el T.
Proof. exact compose_is_group. Qed.
Print Assumptions C04_helper_composition_is_one_group_of_merge.

(* the seeded scenario on the model: an aggregate of 7 of the 8 children used twice as argument makes both receivers dense and keeps
   its own 7 cells; the verdict computed from observations accepts the model's own prediction *)
Example C04_helper_sequence :
  let sts := run_ops (init_st ex_units ex_highs) ex_ops in
  let fin := last sts (init_st [] []) in
  is_dense fin 7 = true /\ is_dense fin 8 = true /\ is_dense fin 0 = false /\ List.length (hunits fin 0) = 7%nat /\
  script_prop ex_units ex_highs ex_ops [(O, 5, 3, 4)] (script_model ex_units ex_highs ex_ops [(O, 5, 3, 4)]) = true.
Proof. exact ex_sequence. Qed.

(* ---- 14. Histories. The model of every function C04 is anchored in is a pure function of the call's own arguments, so in ANY history
   of calls (valid or invalid, repeated, with any other calls before and after, whatever the caller does to its own slices and objects
   in between — none of that is an argument) a step gets the answer it gets as a standalone call. This is why the dispatch entry
   MergeHistory judges every step of a call sequence on the real code exactly like a single fresh call: an implementation whose answer
   depends on earlier calls (memo keyed on part of the arguments, key stored before validation, result aliasing library state or the
   caller's input, scratch buffer not reset) differs from the model at some step. ---- *)
Theorem C04_answers_do_not_depend_on_history : forall pre s post,
  nth_error (run_history (pre ++ s :: post)) (List.length pre) = Some (step_model s).
Proof. exact history_independent. Qed.
Print Assumptions C04_answers_do_not_depend_on_history.

Theorem C04_same_call_same_answer_in_any_two_histories : forall pre1 post1 pre2 post2 s,
  nth_error (run_history (pre1 ++ s :: post1)) (List.length pre1) = nth_error (run_history (pre2 ++ s :: post2)) (List.length pre2).
Proof. exact history_same_step. Qed.
Print Assumptions C04_same_call_same_answer_in_any_two_histories.

(* non-vacuity: bad target zoom, the same list at two other zooms, a malformed list, the first valid call again, Higher, a spatial ID *)
Example C04_history :
  run_history [SExt ["1/0/0/1/-1"; "1/0/0/1/-2"] 1 36; SExt ["1/0/0/1/-1"; "1/0/0/1/-2"] 1 0; SExt ["1/0/0/1/-1"; "1/0/0/1/-2"] 1 1;
               SExt ["bad"] 1 0; SExt ["1/0/0/1/-1"; "1/0/0/1/-2"] 1 0; SHigher "3/5/5/3/-2" 1 1; SSid ["1/0/0/0"] 0]%string
  = [AList Err; AList (Ok ["1/0/0/0/-1"]); AList (Ok ["1/0/0/1/-1"; "1/0/0/1/-2"]); AList Err; AList (Ok ["1/0/0/0/-1"]);
     AStr (Some "2/2/2/2/-1"); AList (Ok ["1/0/0/0"])]%string.
Proof. exact history_example. Qed.

(* ---- 15. The regenerated INT64 kernels (theories/GenC04.v over generated/Generated64.v: the threshold of NewHighSpatialID and Higher
   translated from /repo's Go source with Go's int64 semantics; Some (v, true) = returns v and no operation wrapped, None = panic).
   These replace the former assumption "int64 = Z on the property's domain" for the two integer kernels of the merge. ---- *)
From SID Require GenC04 I64.
From SIDGen Require Generated64.
(* zooms 0..35 and threshold exponent <= 62: the code computes exactly the mathematical threshold, without any wrap *)
Theorem C04_gen64_threshold_is_exact : forall H V MH MV hz vz, 0 <= H <= hz /\ hz <= MH <= 35 -> 0 <= V <= vz /\ vz <= MV <= 35 ->
  2 * (MH - H) + (MV - V) <= 62 ->
  Generated64.NewHighSpatialID_threshold (MH - hz) (MV - vz) (hz - H) (vz - V) = Some (thr H V MH MV, true).
Proof. exact GenC04.gen64_threshold_is_thr. Qed.
Print Assumptions C04_gen64_threshold_is_exact.

(* zooms 0..35, any exponent (also 63..105 where the product wraps): Go's value is the threshold thr64 of the executable model merge64.
   (thr64 is Go's value for 0 <= MV-V <= 63 only — beyond, the saturated power differs, GenEq64Merge.thr64_differs_beyond; zooms <= 35
   and the harness bound MV-V <= 40 never get there.) *)
Theorem C04_gen64_threshold_value_is_thr64 : forall H V MH MV hz vz, 0 <= H <= hz /\ hz <= MH <= 35 -> 0 <= V <= vz /\ vz <= MV <= 35 ->
  I64.go_value (Generated64.NewHighSpatialID_threshold (MH - hz) (MV - vz) (hz - H) (vz - V)) = Some (thr64 H V MH MV).
Proof. exact GenC04.gen64_threshold_go_value_is_thr64. Qed.
Print Assumptions C04_gen64_threshold_value_is_thr64.

(* the first wraps, computed on the generated kernel: exponent 62 exact, 63 -> MinInt64, 64 -> 0 *)
Theorem C04_gen64_threshold_first_wraps :
  Generated64.NewHighSpatialID_threshold 0 0 31 0 = Some (2 ^ 62, true) /\
  Generated64.NewHighSpatialID_threshold 0 0 31 1 = Some (- 2 ^ 63, false) /\
  Generated64.NewHighSpatialID_threshold 0 0 32 0 = Some (0, false) /\
  thr64 0 0 31 1 = - 2 ^ 63 /\ thr64 0 0 32 0 = 0.
Proof. exact GenC04.gen64_threshold_first_wraps. Qed.
Print Assumptions C04_gen64_threshold_first_wraps.

(* the count test of the Go code, with the threshold the int64 code computes, is the covering test of the specification *)
Theorem C04_gen64_count_test_is_covering_test : forall H V ids i,
  0 <= H <= 35 -> 0 <= V <= 35 -> (forall j, In j ids -> valid j) -> fits64 H V ids -> In i ids -> elig H V i ->
  exists t, Generated64.NewHighSpatialID_threshold (maxz eh ids - eh i) (maxz ev ids - ev i) (eh i - H) (ev i - V) = Some (t, true) /\
    (Z.of_nat (List.length (nodupb eid_eqb (flat_map (units (maxz eh ids) (maxz ev ids)) (group H V (el H V ids) (tgt H V i))))) = t
     <-> fullS H V (fun j => In j ids) (tgt H V i)).
Proof. exact GenC04.gen64_count_test_is_covering. Qed.
Print Assumptions C04_gen64_count_test_is_covering_test.

(* Higher on int64: for a valid ID and differences 0..61 no operation wraps and the result is the floor ancestor on all three axes *)
Theorem C04_gen64_Higher_is_floor_ancestor : forall i hd vd, valid i -> 0 <= hd <= 61 -> 0 <= vd <= 61 ->
  Generated64.ExtendedSpatialID_Higher (eh i) (ex i) (ey i) (ev i) (ef i) hd vd =
    Some (GenTac.eid_tuple {| eh := eh i - hd; ex := anc hd (ex i); ey := anc hd (ey i); ev := ev i - vd; ef := anc vd (ef i) |}, true).
Proof. exact GenC04.gen64_Higher_is_floor_ancestor. Qed.
Print Assumptions C04_gen64_Higher_is_floor_ancestor.

(* negative differences: hDiff < 0 panics (division by zero); vDiff < 0 does not panic (shift count uint64(vDiff), sign fill) *)
Theorem C04_gen64_Higher_negative_differences :
  (forall h x y v f hd vd, hd < 0 -> Generated64.ExtendedSpatialID_Higher h x y v f hd vd = None) /\
  (forall h x y v f hd vd, 0 <= hd <= 61 -> vd < 0 ->
     exists hz xx yy vz e, Generated64.ExtendedSpatialID_Higher h x y v f hd vd = Some ((hz, xx, yy, vz, if f <? 0 then -1 else 0), e)).
Proof. exact GenC04.gen64_Higher_negative_differences. Qed.
Print Assumptions C04_gen64_Higher_negative_differences.

Example C04_gen64_examples :
  Generated64.NewHighSpatialID_threshold 1 2 1 2 = Some (256, true) /\
  Generated64.ExtendedSpatialID_Higher 3 5 5 3 (-2) 1 1 = Some ((2, 2, 2, 2, -1), true) /\
  Generated64.ExtendedSpatialID_Higher 3 5 5 3 (-2) (-1) 1 = None /\
  I64.go_value (Generated64.ExtendedSpatialID_Higher 3 5 5 3 (-2) 1 (-1)) = Some (2, 2, 2, 4, -1).
Proof. repeat split; vm_compute; reflexivity. Qed.

(* ---- non-vacuity ---- *)
(* the two halves on either side of ground level are NOT fused (the defect repaired by 27792ec), two halves below ground are *)
Example C04_ground_level :
  valid (mk 1 0 0 1 (-1)) /\ valid (mk 1 0 0 1 0) /\
  merge_x 1 0 [mk 1 0 0 1 (-1); mk 1 0 0 1 0] = [mk 1 0 0 1 (-1); mk 1 0 0 1 0] /\
  merge_x 1 0 [mk 1 0 0 1 (-1); mk 1 0 0 1 (-2)] = [mk 1 0 0 0 (-1)] /\
  merge_x 1 0 [mk 1 0 0 1 0; mk 1 0 0 1 1] = [mk 1 0 0 0 0].
Proof. repeat split; try (unfold valid; cbn; lia); vm_compute; reflexivity. Qed.
(* a complete set of 8 children plus a finer unrelated voxel: 32 unit cells = threshold, merged; the other voxel unchanged *)
Example C04_complete_set :
  merge_ext_api ["2/0/0/2/0"; "2/0/1/2/0"; "2/1/0/2/0"; "2/1/1/2/0"; "2/0/0/2/1"; "2/0/1/2/1"; "2/1/0/2/1"; "2/1/1/2/1"; "3/7/7/1/0"]%string 1 1
  = Ok ["1/0/0/1/0"; "3/7/7/1/0"]%string.
Proof. vm_compute. reflexivity. Qed.
(* one child missing: nothing is merged; an input coarser than the target on the vertical axis is returned unchanged *)
Example C04_incomplete_set :
  merge_ext_api ["2/0/0/2/0"; "2/0/1/2/0"; "2/1/0/2/0"; "2/0/0/2/1"; "2/0/1/2/1"; "2/1/0/2/1"; "2/1/1/2/1"; "1/0/0/0/-1"]%string 1 1
  = Ok ["1/0/0/0/-1"; "2/0/0/2/0"; "2/0/1/2/0"; "2/1/0/2/0"; "2/0/0/2/1"; "2/0/1/2/1"; "2/1/0/2/1"; "2/1/1/2/1"]%string.
Proof. vm_compute. reflexivity. Qed.
Example C04_sid : merge_sid_api ["1/-1/0/0"; "1/-2/0/0"; "1/-1/0/1"; "1/-2/0/1"; "1/-1/1/0"; "1/-2/1/0"; "1/-1/1/1"; "1/-2/1/1"]%string 0 = Ok ["0/-1/0/0"]%string.
Proof. vm_compute. reflexivity. Qed.
Example C04_checker_rejects_the_old_defect :
  check_merge 1 0 [mk 1 0 0 1 (-1); mk 1 0 0 1 0] [mk 1 0 0 0 0] = false /\
  check_merge 1 0 [mk 1 0 0 1 (-1); mk 1 0 0 1 0] [mk 1 0 0 1 (-1); mk 1 0 0 1 0] = true.
Proof. split; vm_compute; reflexivity. Qed.
Example C04_translation : map (shiftf (-1)) [mk 1 0 0 1 0; mk 1 0 0 1 1] = [mk 1 0 0 1 (-2); mk 1 0 0 1 (-1)].
Proof. vm_compute. reflexivity. Qed.

(* ---- tie to the source by regeneration (DESIGN.md 4.2): ExtendedSpatialID.Higher translated from /repo's current source is ZoomCore.higher ---- *)
From SIDGen Require Generated.
From SID Require GenTac GenEqHigher.
(* stated for 0 <= hDiff, vDiff <= 62 only: there int64(math.Pow(2, d)) = 2^d and the shift count is the difference. For hDiff < 0 the Go code
   divides by int64(0.5) = 0 and panics; for vDiff < 0 it does NOT panic (the count is uint64(vDiff), the shift fills with the sign) while the
   Z-model shifts left; for hDiff >= 63 the conversion saturates. The int64 statements are C04_gen64_Higher_* below. *)
Theorem C04_generated_Higher_is_the_model : forall h x y v f hd vd, 0 <= hd <= 62 -> 0 <= vd <= 62 ->
  Generated.ExtendedSpatialID_Higher h x y v f hd vd = GenTac.eid_tuple (ZoomCore.higher (Ids.mk h x y v f) hd vd).
Proof. exact (fun h x y v f hd vd _ _ => GenEqHigher.gen_ExtendedSpatialID_Higher_eq h x y v f hd vd). Qed.
Print Assumptions C04_generated_Higher_is_the_model.
