(* C09 — Point lookup, zoom change, merge and overlap agree with each other.
   Only statements, `exact` proofs and Print Assumptions live here. Proofs: theories/Consistency.v, on top of the finished models
     change_eids / change_ext_api   = integrate.ChangeExtendedSpatialIdsZoom          (ChangeZoom.v, C03)
     merge ord / merge_ext_api      = integrate.MergeExtendedSpatialIds, `ord` = Go's map iteration order, any permutation (Merge.v, C04)
     x_f, y_f, f_f, point_eid, points_api = shape.GetExtendedSpatialIdsOnPoints, bit-exact binary64; math.Tan/Cos/Log are the
                                      parameters m_tan m_cos m_log — ANY functions (PointF.v, C01)
     overlap_check_api              = detector.CheckExtendedSpatialIdsOverlap, step by step; equal to the code on valid IDs (differences outside
                                      them are listed in Consistency.v's header and meta/C09.json)
   Vocabulary: `valid` = zooms 0..35, 0 <= x,y < 2^h, -2^v <= f < 2^v; `wf` = zooms and x, y non-negative (every valid ID);
   `anc d n` = floor (n / 2^d); `overlaps i j` = on each axis the coarser index is the floor-ancestor of the finer (Voxel.overlaps_iff_meet:
   exactly when the two regions share a point); `fval`/`ffin` = real value / finiteness of a binary64; `rnd` = rounding to nearest-even binary64;
   `alt_vanishes alt v` (Consistency.v; the defect D12) = alt < 0 and the quotient alt * 2^(v-25) rounds to (minus) zero — a sub-class of C01's
   `alt_underflow alt v` (alt <> 0 and |alt| < 2^(-997-v)); `merc_m lat` = the float 1 - Log(Tan r + 1/Cos r)/Pi.
   ALL theorems below are about the executable MODELS (tied to the Go code by differential execution only), not about the Go code itself. *)
From Coq Require Import ZArith Reals String List Bool Lia Permutation Floats.
From Flocq Require Import Core.
From SIDGen Require Import GeneratedF.
From SID Require Import Base Str Ids Wire Voxel ZoomCore ChangeZoom Merge MergeCheck MergeRegion F64 ExactRef PointF PtBridge FF XF YF Consistency DC09 GenC09.
Import ListNotations.
Open Scope Z_scope.

(* ================================================================ zoom in, then out *)
(* raising the zoom of an ID on either or both axes by any amount and lowering the result to the ID's own zooms returns exactly [ID]
   (as a list: one element, no repetition), whatever the sign of the vertical index *)
Theorem C09_zoom_in_then_out_returns_the_id : forall i H V, valid i -> eh i <= H -> ev i <= V ->
  change_eids (change_eids [i] H V) (eh i) (ev i) = [i].
Proof. exact zoom_in_out_valid. Qed.
Print Assumptions C09_zoom_in_then_out_returns_the_id.

(* the same through the exported function on the printed ID: no error, 4^dh * 2^dv intermediate IDs, and the ID itself comes back *)
Theorem C09_zoom_in_then_out_api : forall i H V, valid i -> eh i <= H <= 35 -> ev i <= V <= 35 ->
  exists mid, change_ext_api [print_eid i] H V = Ok mid /\
              List.length mid = Z.to_nat (4 ^ (H - eh i) * 2 ^ (V - ev i)) /\
              change_ext_api mid (eh i) (ev i) = Ok [print_eid i].
Proof. exact zoom_in_out_api. Qed.
Print Assumptions C09_zoom_in_then_out_api.

(* ================================================================ merging the complete set of descendants *)
(* any list whose members are exactly the descendants of i at (H,V) — any order, any repetition — merged at i's own zooms is exactly
   [i], for every map iteration order inside the merge *)
Theorem C09_merge_of_all_descendants_is_the_id : forall ord, (forall l, Permutation (ord l) l) ->
  forall i H V l, valid i -> eh i <= H -> ev i <= V ->
  (forall o, In o l <-> In o (change_eids [i] H V)) ->
  merge ord (eh i) (ev i) l = [i].
Proof. exact merge_descendants_valid. Qed.
Print Assumptions C09_merge_of_all_descendants_is_the_id.

Theorem C09_merge_of_permuted_descendants : forall ord, (forall l, Permutation (ord l) l) ->
  forall i H V l, wf i -> eh i <= H -> ev i <= V -> Permutation l (change_eids [i] H V) -> merge ord (eh i) (ev i) l = [i].
Proof. exact merge_descendants_permuted. Qed.
Print Assumptions C09_merge_of_permuted_descendants.

Theorem C09_merge_of_repeated_descendants : forall ord, (forall l, Permutation (ord l) l) ->
  forall i H V l extra, wf i -> eh i <= H -> ev i <= V ->
  Permutation l (change_eids [i] H V ++ extra) -> incl extra (change_eids [i] H V) -> merge ord (eh i) (ev i) l = [i].
Proof. exact merge_descendants_repeated. Qed.
Print Assumptions C09_merge_of_repeated_descendants.

(* through the two exported functions: ChangeExtendedSpatialIdsZoom to finer zooms, then MergeExtendedSpatialIds at the ID's own zooms.
   Extra hypothesis 2 dh + dv <= 62: the API model computes the merge threshold 4^dh * 2^dv in wrapping int64 like the code *)
Theorem C09_zoom_in_then_merge_api : forall i H V, valid i -> eh i <= H <= 35 -> ev i <= V <= 35 -> 2 * (H - eh i) + (V - ev i) <= 62 ->
  exists mid, change_ext_api [print_eid i] H V = Ok mid /\ merge_ext_api mid (eh i) (ev i) = Ok [print_eid i].
Proof. exact zoom_in_then_merge_api. Qed.
Print Assumptions C09_zoom_in_then_merge_api.

Theorem C09_merge_descendants_api : forall i H V l, valid i -> eh i <= H <= 35 -> ev i <= V <= 35 -> 2 * (H - eh i) + (V - ev i) <= 62 ->
  (forall o, In o l <-> In o (change_eids [i] H V)) ->
  merge_ext_api (map print_eid l) (eh i) (ev i) = Ok [print_eid i].
Proof. exact merge_descendants_api. Qed.
Print Assumptions C09_merge_descendants_api.

(* ================================================================ the overlap check *)
(* on the printed form of two valid IDs the check never fails and answers exactly `overlaps` (per-axis minimum zoom, compare ancestors) *)
Theorem C09_overlap_check_decides_overlaps : forall i j, valid i -> valid j ->
  overlap_check_api (print_eid i) (print_eid j) = Ok true <-> overlaps i j.
Proof. exact overlap_check_api_true_iff. Qed.
Print Assumptions C09_overlap_check_decides_overlaps.

(* an ID and every result of changing its zoom (ancestor or descendant, mixed per axis) are reported as overlapping *)
Theorem C09_overlap_check_agrees_with_zoom_change : forall i H V o, valid i -> 0 <= H <= 35 -> 0 <= V <= 35 ->
  In o (change_eids [i] H V) -> overlap_check_api (print_eid i) (print_eid o) = Ok true.
Proof. exact overlap_with_changed. Qed.
Print Assumptions C09_overlap_check_agrees_with_zoom_change.

(* ================================================================ nesting of the voxels of one point, binary64 code *)
(* longitude: for EVERY finite longitude in [-180,180] and all zooms 0 <= h' <= h <= 35 the column at h' is the floor-ancestor of the
   column at h (the same float is scaled by an exact power of two; the clamp into the last column commutes with the ancestor) *)
Theorem C09_x_columns_nested : forall (lon : pfloat) h h', 0 <= h' <= h -> h <= 35 -> ffin lon = true -> (-180 <= fval lon <= 180)%R ->
  exists x, x_f lon h = Some x /\ x_f lon h' = Some (anc (h - h') x) /\ 0 <= x < 2 ^ h.
Proof. exact x_nested. Qed.
Print Assumptions C09_x_columns_nested.

(* latitude: for EVERY answer of math.Tan/Cos/Log; guard: the resulting float m is finite and 0 <= m < 2 (the row is in range) *)
Theorem C09_y_rows_nested_for_every_libm : forall (m_tan m_cos m_log : pfloat -> pfloat) lat h h', 0 <= h' <= h -> h <= 35 ->
  ffin (merc_m m_tan m_cos m_log lat) = true -> (0 <= fval (merc_m m_tan m_cos m_log lat) < 2)%R ->
  exists y, y_f m_tan m_cos m_log lat h = Some y /\ y_f m_tan m_cos m_log lat h' = Some (anc (h - h') y) /\ 0 <= y < 2 ^ h.
Proof. exact y_nested. Qed.
Print Assumptions C09_y_rows_nested_for_every_libm.

(* ... equivalently, guarded by the code's own zoom-35 row being in range *)
Theorem C09_y_rows_nested_from_row35 : forall (m_tan m_cos m_log : pfloat -> pfloat) lat r h h',
  ffin (merc_m m_tan m_cos m_log lat) = true -> (Rabs (fval (merc_m m_tan m_cos m_log lat)) <= 4)%R ->
  y_f m_tan m_cos m_log lat 35 = Some r -> 0 <= r < 2 ^ 35 -> 0 <= h' <= h -> h <= 35 ->
  y_f m_tan m_cos m_log lat h = Some (anc (35 - h) r) /\ y_f m_tan m_cos m_log lat h' = Some (anc (h - h') (anc (35 - h) r)).
Proof. exact y_nested_from_row35. Qed.
Print Assumptions C09_y_rows_nested_from_row35.

(* altitude, PARTIAL: every finite |alt| <= 2^40 outside the defect class alt_vanishes at the coarser zoom (positive denormal altitudes and
   negative ones whose quotient does not round to zero ARE covered). Missing: exactly the defect D12 *)
Theorem C09_f_layers_nested_partial : forall (alt : pfloat) v v', 0 <= v' <= v -> v <= 35 ->
  ffin alt = true -> (Rabs (fval alt) <= bpow radix2 40)%R -> ~ alt_vanishes alt v' ->
  exists f, f_f alt v = Some f /\ f_f alt v' = Some (anc (v - v') f).
Proof. exact f_nested_partial. Qed.
Print Assumptions C09_f_layers_nested_partial.

(* REFUTED on the class: alt = -2^-1074 is in layer -1 at vertical zoom 25 and in layer 0 at zoom 24, and the parent of -1 is -1 *)
Theorem C09_f_layers_underflow_refuted :
  exists (alt : pfloat) v v', 0 <= v' <= v /\ v <= 35 /\ ffin alt = true /\ (Rabs (fval alt) <= bpow radix2 25)%R /\ alt_vanishes alt v' /\
    f_f alt v = Some (-1) /\ f_f alt v' = Some 0 /\ anc (v - v') (-1) <> 0 /\ ~ rel1 v (-1) v' 0.
Proof. exact f_nesting_underflow_refuted. Qed.
Print Assumptions C09_f_layers_underflow_refuted.

(* the whole point, PARTIAL (guards: pt_dom = finite lon in [-180,180], finite alt in [-2^25,2^25), the libm float m finite in [0,2) — an
   UNPROVED hypothesis about Go's libm, evaluated on every run-time case; altitude outside alt_vanishes at the coarser vertical zoom).
   Coordinates that NewPoint accepts but pt_dom excludes (NaN, infinite or huge altitudes) are outside the property's "valid points". The ID at the coarser zooms (each axis independently coarser or equal)
   is the zoom-out of the ID at the finer zooms: index by index, and as the list returned by the zoom change *)
Theorem C09_point_id_at_coarser_zoom_is_zoom_out_partial : forall (m_tan m_cos m_log : pfloat -> pfloat) p h v h' v',
  0 <= h' <= h -> h <= 35 -> 0 <= v' <= v -> v <= 35 -> pt_dom m_tan m_cos m_log p -> ~ alt_vanishes (palt p) v' ->
  exists i i', point_eid m_tan m_cos m_log p h v = Some i /\ point_eid m_tan m_cos m_log p h' v' = Some i' /\ valid i /\ valid i' /\
               eh i = h /\ ev i = v /\ eh i' = h' /\ ev i' = v' /\
               ex i' = anc (h - h') (ex i) /\ ey i' = anc (h - h') (ey i) /\ ef i' = anc (v - v') (ef i) /\
               change_eids [i] h' v' = [i'].
Proof. exact point_nesting_partial. Qed.
Print Assumptions C09_point_id_at_coarser_zoom_is_zoom_out_partial.

(* the same through the exported functions *)
Theorem C09_point_nesting_api_partial : forall (m_tan m_cos m_log : pfloat -> pfloat) p h v h' v',
  0 <= h' <= h -> h <= 35 -> 0 <= v' <= v -> v <= 35 -> pt_dom m_tan m_cos m_log p -> ~ alt_vanishes (palt p) v' ->
  exists s s', points_api m_tan m_cos m_log false [p] h v = Ok [s] /\ points_api m_tan m_cos m_log false [p] h' v' = Ok [s'] /\
               change_ext_api [s] h' v' = Ok [s'].
Proof. exact point_nesting_api_partial. Qed.
Print Assumptions C09_point_nesting_api_partial.

(* "nested" read on regions of space (Voxel.inR): every point of the finer voxel lies in the coarser voxel — same guards *)
Theorem C09_point_voxels_nested_regions_partial : forall (m_tan m_cos m_log : pfloat -> pfloat) p h v h' v',
  0 <= h' <= h -> h <= 35 -> 0 <= v' <= v -> v <= 35 -> pt_dom m_tan m_cos m_log p -> ~ alt_vanishes (palt p) v' ->
  exists i i', point_eid m_tan m_cos m_log p h v = Some i /\ point_eid m_tan m_cos m_log p h' v' = Some i' /\ forall q, inR i q -> inR i' q.
Proof. exact point_regions_nested_partial. Qed.
Print Assumptions C09_point_voxels_nested_regions_partial.

(* the voxels of one point at ANY two zoom pairs (no order between the pairs: crossed orders included) overlap, and the library's
   overlap check answers true on them — PARTIAL with the same guards *)
Theorem C09_voxels_of_a_point_pairwise_overlap_partial : forall (m_tan m_cos m_log : pfloat -> pfloat) p h1 v1 h2 v2,
  0 <= h1 <= 35 -> 0 <= v1 <= 35 -> 0 <= h2 <= 35 -> 0 <= v2 <= 35 ->
  pt_dom m_tan m_cos m_log p -> ~ alt_vanishes (palt p) (Z.min v1 v2) ->
  exists i j, point_eid m_tan m_cos m_log p h1 v1 = Some i /\ point_eid m_tan m_cos m_log p h2 v2 = Some j /\ overlaps i j /\
              overlap_check_api (print_eid i) (print_eid j) = Ok true.
Proof. exact point_voxels_overlap_partial. Qed.
Print Assumptions C09_voxels_of_a_point_pairwise_overlap_partial.

(* REFUTED on the class, for every libm: the voxels of (0, 0, -2^-1074 m) at vertical zooms 25 and 24 do not overlap *)
Theorem C09_point_nesting_underflow_refuted : forall (m_tan m_cos m_log : pfloat -> pfloat),
  exists p, ffin (plon p) = true /\ ffin (palt p) = true /\ (Rabs (fval (palt p)) <= bpow radix2 25)%R /\ alt_vanishes (palt p) 24 /\
    forall h i j, point_eid m_tan m_cos m_log p h 25 = Some i -> point_eid m_tan m_cos m_log p h 24 = Some j ->
                  ef i = -1 /\ ef j = 0 /\ ~ overlaps i j.
Proof. exact point_nesting_underflow_refuted. Qed.
Print Assumptions C09_point_nesting_underflow_refuted.

(* ================================================================ the defect class is exactly the defect *)
(* outside the class the model's vertical index is the exact floor — sharper than C01's guard alt_underflow *)
Theorem C09_f_is_exact_floor_outside_the_defect : forall (alt : pfloat) v, 0 <= v <= 35 -> ffin alt = true ->
  (Rabs (fval alt) <= bpow radix2 40)%R -> ~ alt_vanishes alt v -> f_f alt v = Some (F_exact v (fval alt)).
Proof. exact f_f_exact_sharp. Qed.
Print Assumptions C09_f_is_exact_floor_outside_the_defect.
(* on the whole class the model answers 0 where the floor is -1 *)
Theorem C09_defect_class_refuted_everywhere : forall (alt : pfloat) v, 0 <= v <= 35 -> ffin alt = true ->
  (Rabs (fval alt) <= bpow radix2 40)%R -> alt_vanishes alt v -> f_f alt v = Some 0 /\ F_exact v (fval alt) = -1.
Proof. exact vanishes_is_the_defect. Qed.
Print Assumptions C09_defect_class_refuted_everywhere.
Theorem C09_defect_class_inside_alt_underflow : forall (alt : pfloat) v, alt_vanishes alt v -> alt_underflow alt v.
Proof. exact vanishes_underflow. Qed.
Print Assumptions C09_defect_class_inside_alt_underflow.
Theorem C09_defect_class_decided : forall (alt : pfloat) v, 0 <= v <= 35 -> ffin alt = true -> (Rabs (fval alt) <= bpow radix2 40)%R ->
  alt_vanishes_b alt v = true <-> alt_vanishes alt v.
Proof. exact alt_vanishes_b_spec. Qed.
Print Assumptions C09_defect_class_decided.

(* ================================================================ what the run-time verdicts mean *)
(* the inner checkers are boolean reflections of their specifications *)
Theorem C09_checker_nesting_sound : forall h1 v1 h2 v2 id1 id2 chg ovl,
  check_nesting h1 v1 h2 v2 id1 id2 chg ovl = true <->
  exists e1 e2, parse_eid id1 = Some e1 /\ parse_eid id2 = Some e2 /\
    eh e1 = h1 /\ ev e1 = v1 /\ eh e2 = h2 /\ ev e2 = v2 /\ valid e1 /\ valid e2 /\ overlaps e1 e2 /\
    (NoDup chg /\ forall s, In s chg <-> exists o, s = print_eid o /\ eh o = h2 /\ ev o = v2 /\ exists i, In i [e1] /\ overlaps i o) /\
    In id2 chg /\ ovl = true.
Proof. exact check_nesting_sound. Qed.
Print Assumptions C09_checker_nesting_sound.
(* ... and for a coarser-or-equal second zoom pair that specification forces the zoom change to be exactly [id2] *)
Theorem C09_nesting_spec_ordered : forall h1 v1 h2 v2 id1 id2 chg ovl,
  nesting_spec h1 v1 h2 v2 id1 id2 chg ovl -> h2 <= h1 -> v2 <= v1 -> chg = [id2].
Proof. exact nesting_spec_ordered. Qed.
Print Assumptions C09_nesting_spec_ordered.

Theorem C09_checker_in_out_sound : forall id H V size back,
  check_in_out id H V size back = true <->
  exists i, parse_eid id = Some i /\ size = 4 ^ (H - eh i) * 2 ^ (V - ev i) /\ back = [print_eid i].
Proof. exact check_in_out_sound. Qed.
Print Assumptions C09_checker_in_out_sound.

Theorem C09_checker_merge_sound : forall id merged,
  check_merge_desc id merged = true <-> exists i, parse_eid id = Some i /\ merged = [print_eid i].
Proof. exact check_merge_desc_sound. Qed.
Print Assumptions C09_checker_merge_sound.

Theorem C09_checker_ladder_sound : forall zs ids bools,
  check_ladder zs ids bools = true <->
  exists es, map_opt parse_eid ids = Some es /\ map (fun e => (eh e, ev e)) es = zs /\ Forall valid es /\ ForallOrdPairs overlaps es /\
             Forall (fun b => b = true) bools.
Proof. exact check_ladder_sound. Qed.
Print Assumptions C09_checker_ladder_sound.

(* the verdict functions of DC09.v themselves: prop = true under class "-" means the documented error on invalid arguments, or the
   specification on the observed value; every refused / out-of-domain / over-size case is bad_case or class "skipped" *)
Theorem C09_verdict_nesting : forall oracle p h1 v1 h2 v2 obs,
  v_prop (d_nesting_core oracle p h1 v1 h2 v2 obs) = true -> v_class (d_nesting_core oracle p h1 v1 h2 v2 obs) = "-"%string ->
  (zooms_ok [h1; v1; h2; v2] = false /\ is_err obs = true) \/
  (zooms_ok [h1; v1; h2; v2] = true /\ in_domain_point p = true /\
   exists o1 o2 ochg lc b, obs = VL [VS o1; VS o2; ochg; VB b] /\ as_LS ochg = Some lc /\ nesting_spec h1 v1 h2 v2 o1 o2 lc b).
Proof. exact d_nesting_verdict. Qed.
Print Assumptions C09_verdict_nesting.
Theorem C09_verdict_in_out : forall id H V obs,
  v_prop (d_in_out_core id H V obs) = true -> v_class (d_in_out_core id H V obs) = "-"%string ->
  ((parse_eid id = None \/ (check_zoom H && check_zoom V)%bool = false) /\ is_err obs = true) \/
  (exists omid oback lm lb, obs = VL [omid; oback] /\ as_LS omid = Some lm /\ as_LS oback = Some lb /\
                            in_out_spec id H V (Z.of_nat (List.length lm)) lb).
Proof. exact d_in_out_verdict. Qed.
Print Assumptions C09_verdict_in_out.
Theorem C09_verdict_merge : forall id dh dv obs,
  v_prop (d_merge_desc_core id dh dv obs) = true -> v_class (d_merge_desc_core id dh dv obs) = "-"%string ->
  (parse_eid id = None /\ is_err obs = true) \/
  (exists olist omerged ll lm, obs = VL [olist; omerged] /\ as_LS olist = Some ll /\ as_LS omerged = Some lm /\ merge_desc_spec id lm).
Proof. exact d_merge_desc_verdict. Qed.
Print Assumptions C09_verdict_merge.
Theorem C09_verdict_ladder : forall oracle p zs pairs obs,
  v_prop (d_ladder_core oracle p zs pairs obs) = true -> v_class (d_ladder_core oracle p zs pairs obs) = "-"%string ->
  (forallb (fun z => (check_zoom (fst z) && check_zoom (snd z))%bool) zs = false /\ is_err obs = true) \/
  (in_domain_point p = true /\
   exists oids obools li lb, obs = VL [oids; VL obools] /\ as_LS oids = Some li /\ as_bools obools = Some lb /\
                             List.length lb = List.length pairs /\ ladder_spec zs li lb).
Proof. exact d_ladder_verdict. Qed.
Print Assumptions C09_verdict_ladder.

(* the model's own answers pass the checkers *)
Theorem C09_model_passes_nesting_checker : forall (t c l : pfloat -> pfloat) p h v h' v',
  0 <= h' <= h -> h <= 35 -> 0 <= v' <= v -> v <= 35 -> pt_dom t c l p -> ~ alt_vanishes (palt p) v' ->
  exists i i', point_eid t c l p h v = Some i /\ point_eid t c l p h' v' = Some i' /\
    change_ext_api [print_eid i] h' v' = Ok [print_eid i'] /\
    overlap_check_api (print_eid i) (print_eid i') = Ok true /\
    check_nesting h v h' v' (print_eid i) (print_eid i') [print_eid i'] true = true.
Proof. exact model_passes_check_nesting. Qed.
Print Assumptions C09_model_passes_nesting_checker.

Theorem C09_model_passes_in_out_checker : forall i H V, valid i -> eh i <= H <= 35 -> ev i <= V <= 35 ->
  exists mid, change_ext_api [print_eid i] H V = Ok mid /\
    exists back, change_ext_api mid (eh i) (ev i) = Ok back /\
    check_in_out (print_eid i) H V (Z.of_nat (List.length mid)) back = true.
Proof. exact model_passes_check_in_out. Qed.
Print Assumptions C09_model_passes_in_out_checker.

Theorem C09_model_passes_merge_checker : forall i H V l, valid i -> eh i <= H <= 35 -> ev i <= V <= 35 -> 2 * (H - eh i) + (V - ev i) <= 62 ->
  (forall o, In o l <-> In o (change_eids [i] H V)) ->
  exists merged, merge_ext_api (map print_eid l) (eh i) (ev i) = Ok merged /\ check_merge_desc (print_eid i) merged = true.
Proof. exact model_passes_check_merge_desc. Qed.
Print Assumptions C09_model_passes_merge_checker.

(* ================================================================ the same, over the kernels REGENERATED from the Go source *)
(* coq/generated/GeneratedF.v is rewritten by the translator from shape/point.go on every run; GenEqFPoint.v proves each generated kernel equal
   to the hand-written model (gen_getHorizontalTileIdOnPoint_lonIndex_eq, gen_getHorizontalTileIdOnPoint_latIndex_eq,
   gen_getVerticalTileIdOnAltitude_vIndex_eq). The theorems below are the nesting results about those generated definitions themselves:
     gen_x lon lat h = int64(GeneratedF.getHorizontalTileIdOnPoint_lonIndex lon lat h),   gen_y M lon lat h = int64(.._latIndex M lon lat h),
     gen_f alt v     = int64(GeneratedF.getVerticalTileIdOnAltitude_vIndex alt v),         gen_point_eid M p h v = the ID assembled from the three,
   for EVERY record M of Go's math functions (gen_m M lat = the float 1 - Log(Tan r + 1/Cos r)/Pi computed with M's Tan, Cos, Log).
   An edit of one of these kernels in the source breaks the gen_ lemma and hence these theorems. *)
Theorem C09_gen_x_columns_nested : forall (lon lat : pfloat) h h', 0 <= h' <= h -> h <= 35 -> ffin lon = true -> (-180 <= fval lon <= 180)%R ->
  exists x, Ztrunc_f (GeneratedF.getHorizontalTileIdOnPoint_lonIndex lon lat h) = Some x /\
            Ztrunc_f (GeneratedF.getHorizontalTileIdOnPoint_lonIndex lon lat h') = Some (anc (h - h') x) /\ 0 <= x < 2 ^ h.
Proof. exact gen_x_nested. Qed.
Print Assumptions C09_gen_x_columns_nested.

Theorem C09_gen_y_rows_nested_for_every_libm : forall (M : libm) (lon lat : pfloat) h h', 0 <= h' <= h -> h <= 35 ->
  ffin (gen_m M lat) = true -> (0 <= fval (gen_m M lat) < 2)%R ->
  exists y, Ztrunc_f (GeneratedF.getHorizontalTileIdOnPoint_latIndex M lon lat h) = Some y /\
            Ztrunc_f (GeneratedF.getHorizontalTileIdOnPoint_latIndex M lon lat h') = Some (anc (h - h') y) /\ 0 <= y < 2 ^ h.
Proof. exact gen_y_nested. Qed.
Print Assumptions C09_gen_y_rows_nested_for_every_libm.

Theorem C09_gen_y_rows_nested_from_row35 : forall (M : libm) (lon lat : pfloat) r h h',
  ffin (gen_m M lat) = true -> (Rabs (fval (gen_m M lat)) <= 4)%R ->
  Ztrunc_f (GeneratedF.getHorizontalTileIdOnPoint_latIndex M lon lat 35) = Some r -> 0 <= r < 2 ^ 35 -> 0 <= h' <= h -> h <= 35 ->
  Ztrunc_f (GeneratedF.getHorizontalTileIdOnPoint_latIndex M lon lat h) = Some (anc (35 - h) r) /\
  Ztrunc_f (GeneratedF.getHorizontalTileIdOnPoint_latIndex M lon lat h') = Some (anc (h - h') (anc (35 - h) r)).
Proof. exact gen_y_nested_from_row35. Qed.
Print Assumptions C09_gen_y_rows_nested_from_row35.

Theorem C09_gen_f_is_exact_floor_outside_the_defect : forall (alt : pfloat) v, 0 <= v <= 35 -> ffin alt = true ->
  (Rabs (fval alt) <= bpow radix2 40)%R -> ~ alt_vanishes alt v ->
  Ztrunc_f (GeneratedF.getVerticalTileIdOnAltitude_vIndex alt v) = Some (F_exact v (fval alt)).
Proof. exact gen_f_exact_outside_the_defect. Qed.
Print Assumptions C09_gen_f_is_exact_floor_outside_the_defect.

Theorem C09_gen_f_defect_class_refuted_everywhere : forall (alt : pfloat) v, 0 <= v <= 35 -> ffin alt = true ->
  (Rabs (fval alt) <= bpow radix2 40)%R -> alt_vanishes alt v ->
  Ztrunc_f (GeneratedF.getVerticalTileIdOnAltitude_vIndex alt v) = Some 0 /\ F_exact v (fval alt) = -1.
Proof. exact gen_f_defect. Qed.
Print Assumptions C09_gen_f_defect_class_refuted_everywhere.

Theorem C09_gen_f_layers_nested_partial : forall (alt : pfloat) v v', 0 <= v' <= v -> v <= 35 ->
  ffin alt = true -> (Rabs (fval alt) <= bpow radix2 40)%R -> ~ alt_vanishes alt v' ->
  exists f, Ztrunc_f (GeneratedF.getVerticalTileIdOnAltitude_vIndex alt v) = Some f /\
            Ztrunc_f (GeneratedF.getVerticalTileIdOnAltitude_vIndex alt v') = Some (anc (v - v') f).
Proof. exact gen_f_nested_partial. Qed.
Print Assumptions C09_gen_f_layers_nested_partial.

Theorem C09_gen_f_layers_underflow_refuted :
  exists (alt : pfloat) v v', 0 <= v' <= v /\ v <= 35 /\ ffin alt = true /\ (Rabs (fval alt) <= bpow radix2 25)%R /\ alt_vanishes alt v' /\
    Ztrunc_f (GeneratedF.getVerticalTileIdOnAltitude_vIndex alt v) = Some (-1) /\
    Ztrunc_f (GeneratedF.getVerticalTileIdOnAltitude_vIndex alt v') = Some 0 /\ anc (v - v') (-1) <> 0 /\ ~ rel1 v (-1) v' 0.
Proof. exact gen_f_nesting_underflow_refuted. Qed.
Print Assumptions C09_gen_f_layers_underflow_refuted.

(* the whole point over the three generated kernels — PARTIAL with the same guards as C09_point_id_at_coarser_zoom_is_zoom_out_partial *)
Theorem C09_gen_point_id_at_coarser_zoom_is_zoom_out_partial : forall (M : libm) p h v h' v',
  0 <= h' <= h -> h <= 35 -> 0 <= v' <= v -> v <= 35 -> gen_pt_dom M p -> ~ alt_vanishes (palt p) v' ->
  exists i i', gen_point_eid M p h v = Some i /\ gen_point_eid M p h' v' = Some i' /\ valid i /\ valid i' /\
               eh i = h /\ ev i = v /\ eh i' = h' /\ ev i' = v' /\
               ex i' = anc (h - h') (ex i) /\ ey i' = anc (h - h') (ey i) /\ ef i' = anc (v - v') (ef i) /\
               change_eids [i] h' v' = [i'].
Proof. exact gen_point_nesting_partial. Qed.
Print Assumptions C09_gen_point_id_at_coarser_zoom_is_zoom_out_partial.

Theorem C09_gen_point_voxels_nested_regions_partial : forall (M : libm) p h v h' v',
  0 <= h' <= h -> h <= 35 -> 0 <= v' <= v -> v <= 35 -> gen_pt_dom M p -> ~ alt_vanishes (palt p) v' ->
  exists i i', gen_point_eid M p h v = Some i /\ gen_point_eid M p h' v' = Some i' /\ forall q, inR i q -> inR i' q.
Proof. exact gen_point_regions_nested_partial. Qed.
Print Assumptions C09_gen_point_voxels_nested_regions_partial.

Theorem C09_gen_voxels_of_a_point_pairwise_overlap_partial : forall (M : libm) p h1 v1 h2 v2,
  0 <= h1 <= 35 -> 0 <= v1 <= 35 -> 0 <= h2 <= 35 -> 0 <= v2 <= 35 -> gen_pt_dom M p -> ~ alt_vanishes (palt p) (Z.min v1 v2) ->
  exists i j, gen_point_eid M p h1 v1 = Some i /\ gen_point_eid M p h2 v2 = Some j /\ overlaps i j /\
              overlap_check_api (print_eid i) (print_eid j) = Ok true.
Proof. exact gen_point_voxels_overlap_partial. Qed.
Print Assumptions C09_gen_voxels_of_a_point_pairwise_overlap_partial.

Theorem C09_gen_point_nesting_underflow_refuted : forall (M : libm),
  exists p, ffin (plon p) = true /\ ffin (palt p) = true /\ (Rabs (fval (palt p)) <= bpow radix2 25)%R /\ alt_vanishes (palt p) 24 /\
    forall h i j, gen_point_eid M p h 25 = Some i -> gen_point_eid M p h 24 = Some j -> ef i = -1 /\ ef j = 0 /\ ~ overlaps i j.
Proof. exact gen_point_nesting_underflow_refuted. Qed.
Print Assumptions C09_gen_point_nesting_underflow_refuted.

(* non-vacuity: a libm record (tan = 0, cos = 1, log = 0) and the point (139.75, 0, -75.5 m): in the domain, outside the defect class, and the
   generated kernels give the voxels 20/931339/524288/25/-76 and 4/14/8/24/-38 *)
Example C09_gen_point_domain_inhabited :
  gen_pt_dom flat_libm example_point /\ ~ alt_vanishes (palt example_point) 0 /\
  gen_point_eid flat_libm example_point 20 25 = Some (mk 20 931339 524288 25 (-76)) /\
  gen_point_eid flat_libm example_point 4 24 = Some (mk 4 14 8 24 (-38)).
Proof. exact gen_pt_dom_example. Qed.

(* ================================================================ call histories *)
(* The property quantifies over every history of calls. The four MODELS keep no state: the answers of a history are `map run_call`, so every
   call is answered as it is answered on its own, whatever was called before (valid calls, failing calls, the same or related arguments),
   and the same call made twice is answered twice the same. This is the justification for judging every step of a CallHistory case exactly
   like a standalone case; for the CODE it is not a theorem — it is what the CallHistory cases check (one caller, reused objects and
   buffers, optional scribbling over its inputs and results, failing calls in between). *)
Theorem C09_calls_do_not_depend_on_history : forall (m_tan m_cos m_log : pfloat -> pfloat) h i c,
  nth_error h i = Some c -> nth_error (run_history m_tan m_cos m_log h) i = Some (run_call m_tan m_cos m_log c).
Proof. exact history_is_stateless. Qed.
Print Assumptions C09_calls_do_not_depend_on_history.
Theorem C09_repeated_call_same_answer : forall (m_tan m_cos m_log : pfloat -> pfloat) before between after c,
  nth_error (run_history m_tan m_cos m_log (before ++ c :: between ++ c :: after)) (List.length before) =
  nth_error (run_history m_tan m_cos m_log (before ++ c :: between ++ c :: after)) (List.length before + 1 + List.length between)%nat.
Proof. exact repeated_call_same_answer. Qed.
Print Assumptions C09_repeated_call_same_answer.
(* the zoom-in / zoom-out clause inside any history *)
Theorem C09_zoom_in_then_out_in_any_history : forall (m_tan m_cos m_log : pfloat -> pfloat) before between after i H V,
  valid i -> eh i <= H <= 35 -> ev i <= V <= 35 ->
  exists mid,
    nth_error (run_history m_tan m_cos m_log (before ++ CallChange [print_eid i] H V :: between ++ CallChange mid (eh i) (ev i) :: after))
              (List.length before) = Some (ResIds (Ok mid)) /\
    nth_error (run_history m_tan m_cos m_log (before ++ CallChange [print_eid i] H V :: between ++ CallChange mid (eh i) (ev i) :: after))
              (List.length before + 1 + List.length between)%nat = Some (ResIds (Ok [print_eid i])).
Proof. exact zoom_in_out_in_any_history. Qed.
Print Assumptions C09_zoom_in_then_out_in_any_history.
(* the run-time side: in a CallHistory case every step is judged as the same step on its own, and a history verdict with prop = true means
   that every step's own verdict has prop = true *)
Theorem C09_history_steps_judged_independently : forall oracle steps obss i st ob,
  nth_error steps i = Some st -> nth_error obss i = Some ob -> nth_error (judge_history oracle steps obss) i = Some (d_step oracle st ob).
Proof. exact history_steps_independent. Qed.
Print Assumptions C09_history_steps_judged_independently.
Theorem C09_verdict_history : forall oracle b steps obss,
  v_prop (d_history oracle [VB b; VL steps] (VL obss)) = true ->
  List.length steps = List.length obss /\
  forall i st ob, nth_error steps i = Some st -> nth_error obss i = Some ob -> v_prop (d_step oracle st ob) = true.
Proof. exact d_history_verdict. Qed.
Print Assumptions C09_verdict_history.
(* non-vacuity: a concrete history — a failing call (zoom 36), the valid call, an unrelated overlap check, the failing call again, the valid
   call again, a merge with a malformed member *)
Example C09_history_example :
  run_history (fun x => x) (fun x => x) (fun x => x)
    [CallChange ["3/1/1/3/-8"%string] 36 2; CallChange ["3/1/1/3/-8"%string] 3 2; CallOverlap "4/14/6/25/101" "5/28/12/24/50";
     CallChange ["3/1/1/3/-8"%string] 36 2; CallChange ["3/1/1/3/-8"%string] 3 2; CallMerge ["3/1/1/3/-8"%string; "3/1/b/3/-8"%string] 3 2]
  = [ResIds Err; ResIds (Ok ["3/1/1/2/-4"%string]); ResBool (Ok true); ResIds Err; ResIds (Ok ["3/1/1/2/-4"%string]); ResIds Err].
Proof. exact history_example. Qed.

(* ================================================================ non-vacuity *)
(* the guards of the point theorems are satisfiable (with a constant stand-in for libm: tan = 0, cos = 1, log = 0, so m = 1; that Go's
   libm satisfies the guard on real latitudes is checked at run time, not proved) *)
Example C09_point_domain_inhabited :
  exists (t c l : pfloat -> pfloat) p, pt_dom t c l p /\ ~ alt_vanishes (palt p) 0.
Proof. exact pt_dom_example. Qed.
(* a valid ID below ground, zoomed in by (2,3) — 128 IDs — and out again; its descendants at (21,21) merged back *)
Example C09_in_out_below_ground :
  valid (mk 3 1 1 3 (-8)) /\
  match change_ext_api ["3/1/1/3/-8"%string] 5 6 with
  | Ok mid => (List.length mid, change_ext_api mid 3 3)
  | Err => (0%nat, Err)
  end = (128%nat, Ok ["3/1/1/3/-8"%string]).
Proof. split; [unfold valid; cbn; lia | exact zoom_in_out_below_ground]. Qed.
Example C09_merge_below_ground :
  match change_ext_api ["20/931348/412858/20/-1"%string] 21 21 with
  | Ok mid => merge_ext_api mid 20 20
  | Err => Err
  end = Ok ["20/931348/412858/20/-1"%string].
Proof. exact merge_descendants_below_ground. Qed.
(* two voxels of the point (139.753098, 35.685371, 101.5 m) with crossed zoom orders *)
Example C09_overlap_crossed_zoom_orders : overlap_check_api "4/14/6/25/101" "5/28/12/24/50" = Ok true.
Proof. exact overlap_crossed_zoom_orders. Qed.
