(* C02 — An ID is mapped back to the geometry of its voxel, and the grid tiles space.
   Only statements, `exact` proofs and Print Assumptions live here. Model: theories/VertexF.v (shared, bit-exact, math.Sinh/math.Atan as
   arbitrary functions m_sinh m_atan), proofs: theories/VxBridge.v West.v VertexProofs.v MercatorR.v, run-time checkers: theories/VertexCheck.v.
   Vocabulary: isR x r = "x is the finite binary64 whose exact value is the real r";
   lonplane h k / altplane v k / rowlat h k = the float the code computes for column boundary k, level k, row boundary k;
   lonR h k = k*360/2^h - 180, altR v k = k*2^25/2^v (real numbers);
   lat_hyp i = the oracle's two row-boundary latitudes of i are stored by NewPoint inside the limit and south < north. This is a hypothesis on
   the oracle: for Go's math.Sinh/Atan it is NOT proved for any ID, only observed at run time on every sampled ID (check_vertices) and certified
   per sample by the latcert step; the Examples at the end show it is satisfiable with a toy oracle. Theorems that need it say so.
   Latitude VALUES are not the subject of any theorem about the float code: the real-side theorems (mfrac, mlat, row, rowedge) speak about the
   real formulas only and are tied to the code per sample (latcert), the dispatch checkers tie the reported latitudes to their rows through the
   library's own row formula (check_rows) and to each other (check_centre_lat). *)
From Coq Require Import ZArith Reals String List Floats Lia.
From SIDGen Require Import GeneratedF.
From SID Require Import Base Str Ids Wire F64 PointF VertexF VxBridge West VertexCheck VertexProofs MercatorR DC02 GenC02.
Import ListNotations.
Open Scope Z_scope.

(* (1) eight corners, documented order NW NE SE SW at the bottom then at the top, for all inputs and all oracles. This one is the model's
   definition unfolded (proof: reflexivity); it records how the clamp of the row and the wrap of the column enter. The content is in the next theorem ... *)
Theorem C02_corner_order_all_inputs : forall m_sinh m_atan h x y alt res,
  vertices m_sinh m_atan h x y alt res =
  box_corners (west_of (xwrap h x) (pow2f h)) (east_of (xwrap h x) (pow2f h))
              (edge_lat m_sinh m_atan (yclamp h y) (pow2f h)) (edge_lat m_sinh m_atan (yclamp h y + 1)%float (pow2f h))
              alt (alt + res)%float.
Proof. exact vertices_structure. Qed.
Print Assumptions C02_corner_order_all_inputs.

(* ... and for a valid ID the eight corners are built from the six grid planes x, x+1 / y, y+1 / f, f+1 (no clamp, no wrap, top = next bottom) *)
Theorem C02_corners_are_the_six_planes : forall m_sinh m_atan i, valid i ->
  vertices m_sinh m_atan (eh i) (ex i) (ey i) (valt (ef i) (ev i)) (vres (ev i)) =
  box_corners (lonplane (eh i) (ex i)) (lonplane (eh i) (ex i + 1))
              (rowlat m_sinh m_atan (eh i) (ey i)) (rowlat m_sinh m_atan (eh i) (ey i + 1))
              (altplane (ev i) (ef i)) (altplane (ev i) (ef i + 1)).
Proof. exact vertices_planes. Qed.
Print Assumptions C02_corners_are_the_six_planes.

(* (2) west/east and bottom/top are computed with no rounding at all: they are the real-number box edges, at every zoom and index *)
Theorem C02_longitude_planes_exact : forall h k, 0 <= h <= 35 -> 0 <= k <= 2 ^ h -> isR (lonplane h k) (lonR h k).
Proof. exact lonplane_exact. Qed.
Print Assumptions C02_longitude_planes_exact.
Theorem C02_altitude_planes_exact : forall v k, 0 <= v <= 35 -> - 2 ^ v <= k <= 2 ^ v -> isR (altplane v k) (altR v k).
Proof. exact altplane_exact. Qed.
Print Assumptions C02_altitude_planes_exact.

(* (1)+(2) the corner list of every valid ID satisfies the specification that the run-time checker decides *)
Theorem C02_corners_meet_spec : forall m_sinh m_atan i, valid i -> lat_hyp m_sinh m_atan i ->
  vertices_spec i (vertices_of m_sinh m_atan i).
Proof. exact vertices_meet_spec. Qed.
Print Assumptions C02_corners_meet_spec.

(* (3) voxels that share a face report bit-identical points for it: east(x) = west(x+1), south(y) = north(y+1), top(f) = bottom(f+1);
   for every oracle (the two latitudes are the same float expression) *)
Theorem C02_shared_faces_bit_identical : forall m_sinh m_atan i axis, valid i -> valid (neighbour axis i) -> 0 <= axis <= 2 ->
  shared_spec axis (vertices_of m_sinh m_atan i) (vertices_of m_sinh m_atan (neighbour axis i)).
Proof. exact shared_faces_identical. Qed.
Print Assumptions C02_shared_faces_bit_identical.

(* the antimeridian: column boundary 2^h is the float +180, column boundary 0 is the float -180 (same meridian, two names) ... *)
Theorem C02_antimeridian_planes : forall h, 0 <= h <= 35 -> lonplane h (2 ^ h) = 180%float /\ lonplane h 0 = (-180)%float.
Proof. exact antimeridian_planes. Qed.
Print Assumptions C02_antimeridian_planes.
(* ... so the face between the last column and column 0 (axis 3; at zoom 0 the voxel and itself) is reported as +180 on one side and -180 on the
   other, with bit-identical latitude and altitude; any oracle. The coordinate is NOT the same number on both sides: the property's
   "same coordinate" holds there only modulo 360 *)
Theorem C02_antimeridian_face : forall m_sinh m_atan i, valid i -> ex i = 2 ^ eh i - 1 ->
  shared_spec 3 (vertices_of m_sinh m_atan i) (vertices_of m_sinh m_atan (neighbour 3 i)).
Proof. exact antimeridian_face. Qed.
Print Assumptions C02_antimeridian_face.

(* ... hence no gaps and no overlaps on the longitude and altitude axes: the planes THE CODE COMPUTES cut the documented range into half-open
   cells [plane k, plane k+1) and every real coordinate lies in exactly one *)
Theorem C02_longitude_tiling_on_computed_planes : forall h lon, 0 <= h <= 35 -> (-180 <= lon < 180)%R ->
  exists! k, 0 <= k < 2 ^ h /\ (FR (lonplane h k) <= lon < FR (lonplane h (k + 1)))%R.
Proof. exact lon_tiling_float. Qed.
Print Assumptions C02_longitude_tiling_on_computed_planes.
Theorem C02_altitude_tiling_on_computed_planes : forall v a, 0 <= v <= 35 -> (- IZR (2 ^ 25) <= a < IZR (2 ^ 25))%R ->
  exists! f, - 2 ^ v <= f < 2 ^ v /\ (FR (altplane v f) <= a < FR (altplane v (f + 1)))%R.
Proof. exact alt_tiling_float. Qed.
Print Assumptions C02_altitude_tiling_on_computed_planes.
(* the same partitions for the real-number planes (no float, no code); the latitude one is REAL SIDE ONLY: cells are (south, north], closed on the
   north side, for latitudes whose Mercator fraction is in [0,1); nothing is proved about the reported (truncated) edge latitudes tiling — that
   would need south < north for all 2^h rows of the oracle, which is only sampled *)
Theorem C02_longitude_tiling : forall h lon, 0 <= h -> (-180 <= lon < 180)%R ->
  exists! k, 0 <= k < 2 ^ h /\ (lonR h k <= lon < lonR h (k + 1))%R.
Proof. exact lon_tiling. Qed.
Print Assumptions C02_longitude_tiling.
Theorem C02_altitude_tiling : forall v a, 0 <= v -> (- IZR (2 ^ 25) <= a < IZR (2 ^ 25))%R ->
  exists! f, - 2 ^ v <= f < 2 ^ v /\ (altR v f <= a < altR v (f + 1))%R.
Proof. exact alt_tiling. Qed.
Print Assumptions C02_altitude_tiling.
Theorem C02_latitude_tiling_real : forall h phi, 0 <= h -> (- (PI / 2) < phi < PI / 2)%R -> (0 <= mfrac phi < 1)%R ->
  exists! y, 0 <= y < 2 ^ h /\ (rowedge h (y + 1) < phi <= rowedge h y)%R.
Proof. exact lat_tiling. Qed.
Print Assumptions C02_latitude_tiling_real.

(* (4) the centre query returns the midpoint: exact on longitude and altitude. The latitude component is the model's own expression (midpoint in
   degrees of the two stored edge latitudes, truncated again) — as a relation between observed values it is decided at run time (check_centre_lat) *)
Theorem C02_centre_is_midpoint : forall m_sinh m_atan i, valid i -> lat_hyp m_sinh m_atan i -> centre_lat_hyp m_sinh m_atan i ->
  centre_of m_sinh m_atan i = mkp (clonf (eh i) (ex i)) (setlat_trunc (centre_lat m_sinh m_atan i)) (caltf (ev i) (ef i)) /\
  isR (clonf (eh i) (ex i)) (clonR (eh i) (ex i)) /\ isR (caltf (ev i) (ef i)) (caltR (ev i) (ef i)).
Proof. exact centre_explicit. Qed.
Print Assumptions C02_centre_is_midpoint.

(* round trip, longitude half: the column of the centre is x for every valid ID at every zoom and EVERY oracle (no latitude hypothesis:
   NewPoint stores the longitude before it looks at the latitude) *)
Theorem C02_centre_roundtrip_longitude : forall m_sinh m_atan i, valid i ->
  x_f (plon (centre_of m_sinh m_atan i)) (eh i) = Some (ex i).
Proof. exact centre_roundtrip_longitude. Qed.
Print Assumptions C02_centre_roundtrip_longitude.
(* round trip, altitude half: the vertical index of the centre is f for every valid ID at every zoom, provided NewPoint accepts the three
   latitudes involved (the library ignores NewPoint's error, and an ignored latitude error stores altitude 0) — oracle hypothesis, run-time validated *)
Theorem C02_centre_roundtrip_altitude : forall m_sinh m_atan i, valid i ->
  lat_acc (rowlat m_sinh m_atan (eh i) (ey i)) = true -> lat_acc (rowlat m_sinh m_atan (eh i) (ey i + 1)) = true ->
  lat_acc (centre_lat_raw m_sinh m_atan i) = true ->
  f_f (palt (centre_of m_sinh m_atan i)) (ev i) = Some (ef i).
Proof. exact centre_roundtrip_altitude. Qed.
Print Assumptions C02_centre_roundtrip_altitude.

(* PARTIAL: the ID of the centre is the original ID up to the row, which comes from the oracle (math.Log/Tan/Cos of the truncated
   midpoint latitude); missing: row = y for the float code — validated at run time on every sampled ID (CentreRoundTrip) *)
Theorem C02_centre_roundtrip_partial : forall m_sinh m_atan m_tan m_cos m_log i Y, valid i -> lat_hyp m_sinh m_atan i -> centre_lat_hyp m_sinh m_atan i ->
  y_f m_tan m_cos m_log (plat (centre_of m_sinh m_atan i)) (eh i) = Some Y ->
  points_api m_tan m_cos m_log false [centre_of m_sinh m_atan i] (eh i) (ev i) = Ok [print_eid (mk (eh i) (ex i) Y (ev i) (ef i))].
Proof. exact centre_roundtrip_partial. Qed.
Print Assumptions C02_centre_roundtrip_partial.

(* (5) real side: the corner latitude function inverts the row function, both are strictly decreasing, so in exact arithmetic the
   midpoint latitude of a row maps back to that row *)
Theorem C02_mercator_inverse : (forall t, mfrac (mlat t) = t) /\ (forall phi, (- (PI / 2) < phi < PI / 2)%R -> mlat (mfrac phi) = phi).
Proof. exact (conj mfrac_mlat mlat_mfrac). Qed.
Print Assumptions C02_mercator_inverse.
Theorem C02_corner_latitude_strictly_decreasing : forall t1 t2, (t1 < t2)%R -> (mlat t2 < mlat t1)%R.
Proof. exact mlat_decreasing. Qed.
Print Assumptions C02_corner_latitude_strictly_decreasing.
Theorem C02_real_row_iff_between_edges : forall h y phi, 0 <= h -> (- (PI / 2) < phi < PI / 2)%R ->
  row h phi = y <-> (rowedge h (y + 1) < phi <= rowedge h y)%R.
Proof. exact row_iff_between. Qed.
Print Assumptions C02_real_row_iff_between_edges.
Theorem C02_real_midpoint_maps_back : forall h y, 0 <= h -> row h ((rowedge h y + rowedge h (y + 1)) / 2) = y.
Proof. exact row_of_midpoint. Qed.
Print Assumptions C02_real_midpoint_maps_back.

(* API level: both options on the printed form of a valid ID; error paths; the spatial-ID entry point *)
Theorem C02_api_vertex_option : forall m_sinh m_atan i, valid i ->
  point_on_eid_api m_sinh m_atan (print_eid i) 0 = Ok (vertices_of m_sinh m_atan i).
Proof. exact api_vertex_option. Qed.
Print Assumptions C02_api_vertex_option.
Theorem C02_api_centre_option : forall m_sinh m_atan i, valid i ->
  point_on_eid_api m_sinh m_atan (print_eid i) 1 = Ok [centre_of m_sinh m_atan i].
Proof. exact api_centre_option. Qed.
Print Assumptions C02_api_centre_option.
Theorem C02_api_malformed_id_is_error : forall m_sinh m_atan s o, parse_eid s = None -> point_on_eid_api m_sinh m_atan s o = Err.
Proof. exact api_malformed. Qed.
Print Assumptions C02_api_malformed_id_is_error.
Theorem C02_api_zoom_out_of_range_is_error : forall m_sinh m_atan s i o, parse_eid s = Some i -> ~ (0 <= eh i <= 35 /\ 0 <= ev i <= 35) ->
  point_on_eid_api m_sinh m_atan s o = Err.
Proof. exact api_bad_zoom. Qed.
Print Assumptions C02_api_zoom_out_of_range_is_error.
Theorem C02_api_unknown_option_is_error : forall m_sinh m_atan s o, o <> 0 -> o <> 1 -> point_on_eid_api m_sinh m_atan s o = Err.
Proof. exact api_bad_option. Qed.
Print Assumptions C02_api_unknown_option_is_error.
Theorem C02_api_spatial_id_bad_arity_is_error : forall m_sinh m_atan s o, List.length (Str.split s) <> 4%nat -> point_on_sid_api m_sinh m_atan s o = Err.
Proof. exact api_sid_bad_arity. Qed.
Print Assumptions C02_api_spatial_id_bad_arity_is_error.
Theorem C02_api_spatial_id_same_voxel : forall m_sinh m_atan i o, valid i -> ev i = eh i ->
  point_on_sid_api m_sinh m_atan (print_sid i) o = point_on_eid_api m_sinh m_atan (print_eid i) o.
Proof. exact api_sid_valid. Qed.
Print Assumptions C02_api_spatial_id_same_voxel.

(* the run-time checkers applied to the implementation's output decide exactly the specifications. vertices_spec / centre_spec fix longitude and
   altitude exactly but, on latitude, only the pattern (four equal north, four equal south, south < north, inside the limit); the latitude values
   are constrained by rows_spec (through a row function) and by the centre-latitude relation *)
Theorem C02_exact_reference_sound : forall f n k, 0 <= k -> dy_eq f n k = true <-> isR f (IZR n / IZR (2 ^ k)).
Proof. exact dy_eq_spec. Qed.
Print Assumptions C02_exact_reference_sound.
Theorem C02_vertex_checker_sound : forall i ps, 0 <= eh i -> 0 <= ev i -> check_vertices i ps = true <-> vertices_spec i ps.
Proof. exact check_vertices_sound. Qed.
Print Assumptions C02_vertex_checker_sound.
Theorem C02_centre_checker_sound : forall i ps, 0 <= eh i -> 0 <= ev i -> check_centre i ps = true <-> centre_spec i ps.
Proof. exact check_centre_sound. Qed.
Print Assumptions C02_centre_checker_sound.
Theorem C02_shared_face_checker_sound : forall axis a b, check_shared axis a b = true <-> shared_spec axis a b.
Proof. exact check_shared_sound. Qed.
Print Assumptions C02_shared_face_checker_sound.

Theorem C02_row_checker_sound : forall rowf i ps, check_rows rowf i ps = true <-> rows_spec rowf i ps.
Proof. exact check_rows_sound. Qed.
Print Assumptions C02_row_checker_sound.
Theorem C02_centre_latitude_checker_sound : forall n s c, check_centre_lat n s c = true <->
  (s <? c)%float = true /\ (c <? n)%float = true /\ c = setlat_trunc ((n + s) / 2)%float.
Proof. exact check_centre_lat_sound. Qed.
Print Assumptions C02_centre_latitude_checker_sound.
Theorem C02_roundtrip_checker_sound : forall i back, check_roundtrip i back = true <-> back = print_eid i.
Proof. exact check_roundtrip_sound. Qed.
Print Assumptions C02_roundtrip_checker_sound.

(* histories: the model has no state. In any history of vertex/centre queries (valid or refused, repeated, of the same or of other IDs) the answer to a
   query is the function [answer] of that query's own arguments — so the harness may judge each step of a sequence of calls exactly like the standalone
   call, and any dependence of the library's answer on what was asked before is a violation *)
Theorem C02_model_answers_do_not_depend_on_history : forall m_sinh m_atan pre pre' post post' q,
  nth_error (run_history m_sinh m_atan (pre ++ q :: post)) (List.length pre) = Some (answer m_sinh m_atan q) /\
  nth_error (run_history m_sinh m_atan (pre' ++ q :: post')) (List.length pre') = Some (answer m_sinh m_atan q).
Proof. exact history_independent. Qed.
Print Assumptions C02_model_answers_do_not_depend_on_history.
(* ... and the PointSequence entry does exactly that: the verdict at position n is the standalone verdict of step n on its own observed answer *)
Theorem C02_sequence_steps_judged_standalone : forall oracle steps outs vs, c02_steps oracle steps outs = Some vs ->
  forall n s o, nth_error steps n = Some s -> nth_error outs n = Some o -> nth_error vs n = Some (c02_step oracle s o).
Proof. exact c02_steps_stepwise. Qed.
Print Assumptions C02_sequence_steps_judged_standalone.

(* ================= the main results over the kernels REGENERATED from the Go source (SIDGen.GeneratedF, rewritten by the translator on every run) =================
   g_west / g_east / g_north / g_south / g_top = the locals westLon, eastLon, northLat, southLat, vTopAlt of getVertexOnVoxelOffset; g_alt = getAltitudeOnVerticalIndexAndZoom;
   g_clon / g_calt = centerLon / centerAlt of getCenterPointOnVoxelOffset; g_lonIndex / g_latIndex / g_vIndex = the point -> index kernels; M : libm = Go's math package
   as arbitrary functions. of_Z x is float64(lonIndex) of a column inside the grid (the wrap of the column is not regenerated; for a valid ID it is the identity). *)
Theorem C02_gen_corners_in_documented_order : forall (M : libm) i, valid i ->
  let alt := fst (g_alt (ef i) (ev i)) in let res := snd (g_alt (ef i) (ev i)) in
  vertices (m_sinh M) (m_atan M) (eh i) (ex i) (ey i) alt res =
  box_corners (g_west (ex i) (ey i) (eh i) alt res (of_Z (ex i))) (g_east (ex i) (ey i) (eh i) alt res (of_Z (ex i)))
              (g_north M (ex i) (ey i) (eh i) alt res) (g_south M (ex i) (ey i) (eh i) alt res)
              alt (g_top (ex i) (ey i) (eh i) alt res).
Proof. exact gen_corners. Qed.
Print Assumptions C02_gen_corners_in_documented_order.
Theorem C02_gen_west_edge_exact : forall x y h alt res, 0 <= h <= 35 -> 0 <= x <= 2 ^ h -> isR (g_west x y h alt res (of_Z x)) (lonR h x).
Proof. exact gen_west_exact. Qed.
Print Assumptions C02_gen_west_edge_exact.
Theorem C02_gen_east_edge_exact : forall x y h alt res, 0 <= h <= 35 -> 0 <= x < 2 ^ h -> isR (g_east x y h alt res (of_Z x)) (lonR h (x + 1)).
Proof. exact gen_east_exact. Qed.
Print Assumptions C02_gen_east_edge_exact.
Theorem C02_gen_bottom_top_exact : forall x y h f v, 0 <= v <= 35 -> - 2 ^ v <= f < 2 ^ v ->
  isR (fst (g_alt f v)) (altR v f) /\ isR (g_top x y h (fst (g_alt f v)) (snd (g_alt f v))) (altR v (f + 1)).
Proof. exact gen_altitude_exact. Qed.
Print Assumptions C02_gen_bottom_top_exact.
(* shared faces on the regenerated kernels *)
Theorem C02_gen_east_is_next_west : forall x y y' h alt res alt' res', 0 <= h <= 35 -> 0 <= x <= 2 ^ h ->
  g_east x y h alt res (of_Z x) = g_west (x + 1) y' h alt' res' (of_Z (x + 1)).
Proof. exact gen_east_is_next_west. Qed.
Print Assumptions C02_gen_east_is_next_west.
Theorem C02_gen_top_is_next_bottom : forall x y h f v, 0 <= v <= 35 -> - 2 ^ v <= f < 2 ^ v ->
  g_top x y h (fst (g_alt f v)) (snd (g_alt f v)) = fst (g_alt (f + 1) v).
Proof. exact gen_top_is_next_bottom. Qed.
Print Assumptions C02_gen_top_is_next_bottom.
Theorem C02_gen_south_is_next_north : forall (M : libm) x x' y h alt res alt' res', 0 <= h <= 35 -> 0 <= y -> y + 1 < 2 ^ h ->
  g_south M x y h alt res = g_north M x' (y + 1) h alt' res'.
Proof. exact gen_south_is_next_north. Qed.
Print Assumptions C02_gen_south_is_next_north.
Theorem C02_gen_antimeridian : forall y h alt res, 0 <= h <= 35 ->
  g_east (2 ^ h - 1) y h alt res (of_Z (2 ^ h - 1)) = 180%float /\ g_west 0 y h alt res (of_Z 0) = (-180)%float.
Proof. exact gen_antimeridian. Qed.
Print Assumptions C02_gen_antimeridian.
(* NewPoint's checked setters, regenerated: a plane longitude and an accepted latitude are stored without error *)
Theorem C02_gen_setters_store_corner : forall h k lat, 0 <= h <= 35 -> 0 <= k <= 2 ^ h -> lat_acc lat = true ->
  GeneratedF.Point_SetLon 0 0 0 (lonplane h k) = (lonplane h k, 0%float, 0%float, false) /\
  GeneratedF.Point_SetLat (lonplane h k) 0 0 lat = (lonplane h k, setlat_trunc lat, 0%float, false).
Proof. exact gen_setters_store_corner. Qed.
Print Assumptions C02_gen_setters_store_corner.
(* the centre: regenerated midpoints of the regenerated edges, exact; and back through the regenerated point -> index kernels *)
Theorem C02_gen_centre_exact : forall x y h f v, 0 <= h <= 35 -> 0 <= v <= 35 -> 0 <= x < 2 ^ h -> - 2 ^ v <= f < 2 ^ v ->
  isR (g_centre_lon x y h f v) (clonR h x) /\ isR (g_centre_alt x y h f v) (caltR v f).
Proof. exact gen_centre_exact. Qed.
Print Assumptions C02_gen_centre_exact.
Theorem C02_gen_roundtrip_longitude : forall x y h f v, 0 <= h <= 35 -> 0 <= x < 2 ^ h -> forall lat,
  Ztrunc_f (g_lonIndex (g_centre_lon x y h f v) lat h) = Some x.
Proof. exact gen_roundtrip_longitude. Qed.
Print Assumptions C02_gen_roundtrip_longitude.
Theorem C02_gen_roundtrip_altitude : forall x y h f v, 0 <= v <= 35 -> - 2 ^ v <= f < 2 ^ v ->
  Ztrunc_f (g_vIndex (g_centre_alt x y h f v) v) = Some f.
Proof. exact gen_roundtrip_altitude. Qed.
Print Assumptions C02_gen_roundtrip_altitude.
(* the model's centre point: its longitude IS the regenerated midpoint for every libm; its altitude under acceptance of the three latitudes *)
Theorem C02_gen_centre_point_longitude : forall (M : libm) i lat, valid i ->
  plon (centre_of (m_sinh M) (m_atan M) i) = g_centre_lon (ex i) (ey i) (eh i) (ef i) (ev i) /\
  Ztrunc_f (g_lonIndex (plon (centre_of (m_sinh M) (m_atan M) i)) lat (eh i)) = Some (ex i).
Proof. exact gen_centre_point_longitude. Qed.
Print Assumptions C02_gen_centre_point_longitude.
Theorem C02_gen_centre_point_altitude : forall (M : libm) i, valid i ->
  lat_acc (rowlat (m_sinh M) (m_atan M) (eh i) (ey i)) = true -> lat_acc (rowlat (m_sinh M) (m_atan M) (eh i) (ey i + 1)) = true ->
  lat_acc (centre_lat_raw (m_sinh M) (m_atan M) i) = true ->
  palt (centre_of (m_sinh M) (m_atan M) i) = g_centre_alt (ex i) (ey i) (eh i) (ef i) (ev i) /\
  Ztrunc_f (g_vIndex (palt (centre_of (m_sinh M) (m_atan M) i)) (ev i)) = Some (ef i).
Proof. exact gen_centre_point_altitude. Qed.
Print Assumptions C02_gen_centre_point_altitude.
(* PARTIAL (the row is the libm's): the ID of the centre through the regenerated latIndex kernel *)
Theorem C02_gen_centre_roundtrip_partial : forall (M : libm) i lon Y, valid i -> lat_hyp (m_sinh M) (m_atan M) i -> centre_lat_hyp (m_sinh M) (m_atan M) i ->
  Ztrunc_f (g_latIndex M lon (plat (centre_of (m_sinh M) (m_atan M) i)) (eh i)) = Some Y ->
  points_api (m_tan M) (m_cos M) (m_log M) false [centre_of (m_sinh M) (m_atan M) i] (eh i) (ev i) = Ok [print_eid (mk (eh i) (ex i) Y (ev i) (ef i))].
Proof. exact gen_centre_roundtrip_partial. Qed.
Print Assumptions C02_gen_centre_roundtrip_partial.

(* totality of the run-time entries: on well-shaped arguments (any ID string, any option, any indices, ANY observed value) an entry never answers
   "bad-case" (= "the model cannot process this case"): it judges the case or, beyond the stated size bound, answers class "skipped" *)
Theorem C02_entries_total : forall oracle,
  (forall sid id opt obs, v_class (d_point_on_id oracle sid [VS id; VZ opt] obs) <> "bad-case"%string) /\
  (forall id sid obs, v_class (d_roundtrip oracle [VS id; VB sid] obs) <> "bad-case"%string) /\
  (forall cq x y h f v obs, v_class (d_vertex_hook oracle cq [VZ x; VZ y; VZ h; VZ f; VZ v] obs) <> "bad-case"%string) /\
  (forall f v obs, v_class (d_alt_hook [VZ f; VZ v] obs) <> "bad-case"%string) /\
  (forall id obs, v_class (d_attrs_hook [VS id] obs) <> "bad-case"%string).
Proof.
  exact (fun oracle => conj (d_point_on_id_total oracle) (conj (d_roundtrip_total oracle) (conj (d_vertex_hook_total oracle)
          (conj d_alt_hook_total d_attrs_hook_total)))).
Qed.
Print Assumptions C02_entries_total.

(* non-vacuity: a concrete valid ID at the last column / first row / negative f and a concrete (toy, decreasing) oracle satisfy every hypothesis,
   and the model's outputs pass the checkers *)
Definition toy_sinh (x : float) : float := x.
Definition toy_atan (x : float) : float := (x / 4)%float.
Example C02_nonvacuous :
  let i := mk 3 7 0 4 (-16) in
  valid i /\ lat_hyp toy_sinh toy_atan i /\ centre_lat_hyp toy_sinh toy_atan i /\ valid (neighbour 1 i) /\ valid (neighbour 2 i) /\
  check_vertices i (vertices_of toy_sinh toy_atan i) = true /\ check_centre i [centre_of toy_sinh toy_atan i] = true.
Proof.
  cbv zeta. split; [unfold valid; cbn; lia|]. split; [repeat split; vm_compute; reflexivity|].
  split; [vm_compute; reflexivity|]. split; [unfold valid; cbn; lia|]. split; [unfold valid; cbn; lia|].
  split; vm_compute; reflexivity.
Qed.
Example C02_nonvacuous_zoom35 :
  let i := mk 35 (2 ^ 35 - 1) (2 ^ 35 - 1) 35 (- 2 ^ 35) in
  valid i /\ lat_hyp toy_sinh toy_atan i /\ centre_lat_hyp toy_sinh toy_atan i /\
  lat_acc (centre_lat_raw toy_sinh toy_atan i) = true /\
  x_f (plon (centre_of toy_sinh toy_atan i)) 35 = Some (2 ^ 35 - 1) /\ f_f (palt (centre_of toy_sinh toy_atan i)) 35 = Some (- 2 ^ 35).
Proof.
  cbv zeta. split; [unfold valid; cbn; lia|]. split; [repeat split; vm_compute; reflexivity|].
  split; [vm_compute; reflexivity|]. split; [vm_compute; reflexivity|]. split; vm_compute; reflexivity.
Qed.
(* the antimeridian pair at zoom 2 and the voxel of zoom 0 with itself pass the checker *)
Example C02_nonvacuous_antimeridian :
  check_shared 3 (vertices_of toy_sinh toy_atan (mk 2 3 1 0 0)) (vertices_of toy_sinh toy_atan (mk 2 0 1 0 0)) = true /\
  check_shared 3 (vertices_of toy_sinh toy_atan (mk 0 0 0 0 (-1))) (vertices_of toy_sinh toy_atan (mk 0 0 0 0 (-1))) = true.
Proof. split; vm_compute; reflexivity. Qed.
(* a history with a refused call in the middle: the same query gets the same answer before and after it *)
Example C02_nonvacuous_history :
  let q := QueryEid "3/7/0/4/-16" 0 in
  match run_history toy_sinh toy_atan [q; QueryEid "3/7/0/x/-16" 0; QueryEid "3/7/0/4/-16" 1; q] with
  | [Ok a; Err; Ok [c]; Ok b] => List.length a = 8%nat /\ a = b
  | _ => False
  end.
Proof. vm_compute. split; reflexivity. Qed.
(* the regenerated kernels evaluated: zoom 35, last column, lowest level — the edges, and the centre back to (x, f) *)
Example C02_gen_nonvacuous :
  let x := 2 ^ 35 - 1 in let f := - 2 ^ 35 in
  Prim2SF (g_east x 0 35 0 0 (of_Z x)) = Prim2SF 180%float /\
  Ztrunc_f (g_lonIndex (g_centre_lon x 0 35 f 35) 0 35) = Some x /\ Ztrunc_f (g_vIndex (g_centre_alt x 0 35 f 35) 35) = Some f.
Proof. vm_compute. repeat split; reflexivity. Qed.

(* ---- the centre as a whole over the regenerated code (theories/GenC02.v): the model of getCenterPointOnVoxelOffset that the entries run is
   the three regenerated midpoint expressions applied to the extreme coordinates of the eight vertices, and each — the LATITUDE included —
   is the float (max + min) / 2. The scan for the extremes (a range loop) is not regenerated. ---- *)
Theorem C02_gen_centre_is_the_generated_midpoints_of_the_extremes : forall ms ma h x y alt res,
  centre ms ma h x y alt res =
  match vertices ms ma h x y alt res with
  | p0 :: _ =>
      let ps := vertices ms ma h x y alt res in
      let lons := map plon ps in let lats := map plat ps in let alts := map palt ps in
      pt_of (GeneratedF.getCenterPointOnVoxelOffset_centerLon x y h alt res (fmax_list lons (plon p0)) (fmin_list lons (plon p0)))
            (GeneratedF.getCenterPointOnVoxelOffset_centerLat x y h alt res (fmax_list lats (plat p0)) (fmin_list lats (plat p0)))
            (GeneratedF.getCenterPointOnVoxelOffset_centerAlt x y h alt res (fmax_list alts (palt p0)) (fmin_list alts (palt p0)))
  | [] => zero_point
  end.
Proof. exact gen_centre_is_generated_midpoints. Qed.
Print Assumptions C02_gen_centre_is_the_generated_midpoints_of_the_extremes.
Theorem C02_gen_centre_coordinates_are_float_midpoints : forall x y h alt res (mx mn : pfloat),
  GeneratedF.getCenterPointOnVoxelOffset_centerLon x y h alt res mx mn = ((mx + mn) / 2)%float /\
  GeneratedF.getCenterPointOnVoxelOffset_centerLat x y h alt res mx mn = ((mx + mn) / 2)%float /\
  GeneratedF.getCenterPointOnVoxelOffset_centerAlt x y h alt res mx mn = ((mx + mn) / 2)%float.
Proof. exact gen_centre_coordinates_are_float_midpoints. Qed.
Print Assumptions C02_gen_centre_coordinates_are_float_midpoints.

(* ---- the row index of getVertexOnVoxelOffset as regenerated (local latIndexFloat after the clamp) is the clamped row of the model: rows
   outside 0 .. 2^h-1 (IDs outside the grid) are moved to the nearest row of the grid, rows of the grid are kept ---- *)
Theorem C02_gen_row_is_the_clamped_row : forall x y h alt res,
  GeneratedF.getVertexOnVoxelOffset_latIndexFloat x y h alt res = GenEqFVertex.clamp_row y h.
Proof. exact gen_row_is_the_clamped_row. Qed.
Print Assumptions C02_gen_row_is_the_clamped_row.
Example C02_gen_row_clamp_evaluated :
  map (fun y => GeneratedF.getVertexOnVoxelOffset_latIndexFloat 0 y 3 0%float 1%float) [-5; -1; 0; 1; 6; 7; 8; 100]
    = [0; 0; 0; 1; 6; 7; 7; 7]%float /\
  GeneratedF.getVertexOnVoxelOffset_latIndexFloat 0 (2 ^ 35 - 1) 35 0%float 1%float = of_Z (2 ^ 35 - 1) /\
  GeneratedF.getVertexOnVoxelOffset_latIndexFloat 0 (2 ^ 35) 35 0%float 1%float = of_Z (2 ^ 35 - 1) /\
  GeneratedF.getVertexOnVoxelOffset_latIndexFloat 0 5 0 0%float 1%float = 0%float.
Proof. exact gen_row_clamp_evaluated. Qed.
