(* C18 — Projection to a planar CRS and back returns the same point.
   Only statements, `exact` proofs and Print Assumptions live here. Models and proofs: theories/MercatorR18.v (reals), theories/Project.v.

   What is a theorem and what is not (the property is PARTIAL by design):
   - real-number side: EPSG:3857 as x = R*lambda, y = R*asinh(tan phi), its inverse, both round trips, the identification of the
     ID grid of C01 with that projection, the formulas of the third-party library as the same functions;
   - the list wrappers of shape/point.go, for EVERY behaviour of the third-party point transform (a function parameter `tr`):
     length, order, altitude, error <-> (unknown EPSG code or transform error or NewPoint refusal), prefix on error; regression
     Examples for the two repaired defects (D18, D19);
   - the run-time checkers decide what they are said to decide (exact rational arithmetic on the floats' values).
   NOT proved: that the third-party transform computes these real-number functions to 1e-6 m / 2e-10 degrees. That is checked on the
   code's output on every run (all cases against a float reference; sampled cases by kernel-checked CoqInterval certificates). *)
From Coq Require Import ZArith Floats List QArith Qreals Reals.
From Flocq Require Core BinarySingleNaN.
From SID Require Import Base F64 ExactRef MercatorR18 Project.
From SID Require GridTie18 PtMerc XF.
Import ListNotations.
Open Scope R_scope.

(* ---------------- real-number side ---------------- *)

(* the northing of EPSG:3857, R*ln(tan phi + 1/cos phi), is R*asinh(tan phi) on the whole open domain *)
Theorem C18_northing_is_R_asinh_tan : forall phi, - (PI / 2) < phi < PI / 2 -> merc_y phi = Rearth * arcsinh (tan phi).
Proof. exact merc_y_arcsinh. Qed.
Print Assumptions C18_northing_is_R_asinh_tan.

(* projecting and un-projecting is the identity for every longitude and every latitude strictly between the poles *)
Theorem C18_projection_round_trip : forall lam phi, - (PI / 2) < phi < PI / 2 ->
  merc_lon (merc_x lam) = lam /\ merc_lat (merc_y phi) = phi.
Proof. exact projection_round_trip. Qed.
Print Assumptions C18_projection_round_trip.

(* ... and the other way round for every planar point; the inverse lands strictly between the poles *)
Theorem C18_inverse_round_trip : forall x y,
  merc_x (merc_lon x) = x /\ merc_y (merc_lat y) = y /\ - (PI / 2) < merc_lat y < PI / 2.
Proof. exact inverse_round_trip. Qed.
Print Assumptions C18_inverse_round_trip.

(* the column / row fractions of the ID grid (C01: x = floor(2^h * xfrac lon), y = floor(2^h * mfrac phi)) are the EPSG:3857
   coordinates divided by the half-width PI*R of the projected square: the grid is built on this projection *)
Theorem C18_grid_is_epsg3857 : forall lon phi,
  xfrac lon = (1 + merc_x (rad lon) / (PI * Rearth)) / 2 /\ mfrac phi = (1 - merc_y phi / (PI * Rearth)) / 2.
Proof. exact grid_is_epsg3857. Qed.
Print Assumptions C18_grid_is_epsg3857.
(* the same on C01's OWN objects (PtMerc.wfrac of a latitude in degrees, XF.ufrac with its fold of longitude 180 onto -180): the
   statement above is about private copies `mfrac`/`xfrac` of MercatorR18.v; `xfrac 180 = 1` whereas C01 folds 180 onto column 0 *)
Theorem C18_grid_of_C01_is_epsg3857 : forall lon lat,
  PtMerc.wfrac lat = (1 - merc_y (rad lat) / (PI * Rearth)) / 2 /\
  XF.ufrac lon = (1 + merc_x (rad (XF.lon_fold lon)) / (PI * Rearth)) / 2 /\
  (lon <> 180 -> XF.lon_fold lon = lon) /\ XF.lon_fold 180 = -180.
Proof. exact GridTie18.grid_of_C01_is_epsg3857. Qed.
Print Assumptions C18_grid_of_C01_is_epsg3857.
(* C01's exact row / column are the floors of the scaled EPSG:3857 coordinates *)
Theorem C18_grid_indices_of_C01 : forall h lon lat,
  PtMerc.Y_exact h lat = Raux.Zfloor (Raux.bpow Zaux.radix2 h * ((1 - merc_y (rad lat) / (PI * Rearth)) / 2)) /\
  XF.X_exact h lon = Raux.Zfloor (Raux.bpow Zaux.radix2 h * ((1 + merc_x (rad (XF.lon_fold lon)) / (PI * Rearth)) / 2)).
Proof. exact GridTie18.grid_indices_of_C01. Qed.
Print Assumptions C18_grid_indices_of_C01.

(* the formulas of ONE STAGE of the library path - webMercator.FromLonLat / ToLonLat of wgs84 v1.1.7, transcribed by hand from its
   source, in degrees - are these functions. The detour through geocentric coordinates that every call of the library also takes
   (lonLatToXYZ / xyzToLonLat: the source of finding alt_fed_to_datum) is NOT part of this transcription ... *)
Theorem C18_webmercator_stage_is_the_projection : forall lon lat east north, -90 < lat < 90 ->
  lib_east lon = merc_x (rad lon) /\ lib_north lat = merc_y (rad lat) /\
  lib_lon east = deg (merc_lon east) /\ lib_lat north = deg (merc_lat north).
Proof. exact library_formulas. Qed.
Print Assumptions C18_webmercator_stage_is_the_projection.
(* ... hence in exact arithmetic that stage alone returns every longitude and every latitude in (-90, 90) unchanged *)
Theorem C18_webmercator_stage_round_trip_exact : forall lon lat, -90 < lat < 90 ->
  lib_lon (lib_east lon) = lon /\ lib_lat (lib_north lat) = lat.
Proof. exact round_trip_in_degrees. Qed.
Print Assumptions C18_webmercator_stage_round_trip_exact.

(* the latitude limit 85.0511287798 of object.Point is the edge of the projected square (to 1e-5 m) and lies in the first / last row
   of the grid at the finest zoom *)
Theorem C18_latitude_limit_is_square_edge :
  Rabs (merc_y (rad lat_limit_deg) - PI * Rearth) <= 1 / 100000 /\
  0 <= 2 ^ 35 * mfrac (rad lat_limit_deg) < 1 /\ 2 ^ 35 - 1 <= 2 ^ 35 * mfrac (rad (- lat_limit_deg)) < 2 ^ 35.
Proof. exact latitude_limit. Qed.
Print Assumptions C18_latitude_limit_is_square_edge.

(* the two tolerances fit: a northing within 1e-6 m of the projection of phi un-projects to within 9e-12 degrees of phi *)
Theorem C18_northing_tolerance_in_degrees : forall y phi, - (PI / 2) < phi < PI / 2 ->
  Rabs (y - merc_y phi) <= 1 / 1000000 -> Rabs (deg (merc_lat y) - deg phi) <= 9 / 1000000000000.
Proof. exact northing_tolerance_in_degrees. Qed.
Print Assumptions C18_northing_tolerance_in_degrees.

(* ---------------- the list wrappers (control flow of /repo after the fixes e07a6eb and dbefda0), for every table `known` of EPSG codes
   (known c = the library has the code) and every third-party transform `tr` (None = it returned an error) ---------------- *)

(* forward, no error: output i is the transform of input i (same length, same order), and carries input i's altitude itself *)
Theorem C18_forward_length_order_altitude : forall known tr l crs, snd (to_projected known tr l crs) = None ->
  Forall2 (fun p q => exists x y z, tr geo_crs crs (plon p) (plat p) (palt p) = Some (x, y, z) /\
                                    px q = x /\ py q = y /\ pz q = palt p) l (fst (to_projected known tr l crs)).
Proof. exact to_projected_ok. Qed.
Print Assumptions C18_forward_length_order_altitude.

(* the second component of a result is the returned error: None = nil, Some k = a SpatialIdError with code k.
   A conversion error (errors.ValueConvertErrorCode) is returned exactly when the EPSG code is unknown, or the transform refuses some
   point, or - backward - object.NewPoint refuses the coordinates the transform returned for some point ... *)
Theorem C18_error_iff_transform_error : forall known tr crs,
  (forall l, snd (to_projected known tr l crs) = Some EValueConvert <->
             known crs = false \/ Exists (fun p => tr geo_crs crs (plon p) (plat p) (palt p) = None) l) /\
  (forall l, snd (to_geographic known tr l crs) = Some EValueConvert <->
             known crs = false \/
             Exists (fun q => tr crs geo_crs (px q) (py q) (pz q) = None \/
                              exists x y z, tr crs geo_crs (px q) (py q) (pz q) = Some (x, y, z) /\ snd (new_point x y (pz q)) = true) l).
Proof. exact error_iff. Qed.
Print Assumptions C18_error_iff_transform_error.
(* ... and no other kind of error is ever returned *)
Theorem C18_every_error_is_a_conversion_error : forall known tr crs,
  (forall l, snd (to_projected known tr l crs) = None \/ snd (to_projected known tr l crs) = Some EValueConvert) /\
  (forall l, snd (to_geographic known tr l crs) = None \/ snd (to_geographic known tr l crs) = Some EValueConvert).
Proof. exact error_kind. Qed.
Print Assumptions C18_every_error_is_a_conversion_error.

(* for a known code, the list returned together with the error holds the images of the points before the first refused one, in order *)
Theorem C18_forward_error_returns_prefix : forall known tr l crs, known crs = true -> snd (to_projected known tr l crs) = Some EValueConvert ->
  exists l1 p l2, l = l1 ++ p :: l2 /\ tr geo_crs crs (plon p) (plat p) (palt p) = None /\
                  Forall2 (fwd_rel tr crs) l1 (fst (to_projected known tr l crs)).
Proof. exact to_projected_err_prefix. Qed.
Print Assumptions C18_forward_error_returns_prefix.
Theorem C18_backward_error_returns_prefix : forall known tr l crs, known crs = true -> snd (to_geographic known tr l crs) = Some EValueConvert ->
  exists l1 q l2, l = l1 ++ q :: l2 /\ back_refused tr crs q /\ Forall2 (back_rel tr crs) l1 (fst (to_geographic known tr l crs)).
Proof. exact to_geographic_err_prefix. Qed.
Print Assumptions C18_backward_error_returns_prefix.

(* backward, no error: output i is the point NewPoint builds (and accepts) from the transform of input i - longitude as returned,
   latitude truncated by SetLat - and it carries input i's altitude itself: same length, same order, altitude bit for bit.
   (Was `_partial` while NewPoint's verdict was ignored; with dbefda0 no point is ever returned with a lost altitude.) *)
Theorem C18_backward_length_order_altitude : forall known tr l crs, snd (to_geographic known tr l crs) = None ->
  Forall2 (fun q g => exists x y z, tr crs geo_crs (px q) (py q) (pz q) = Some (x, y, z) /\ snd (new_point x y (pz q)) = false /\
                                    g = {| plon := x; plat := setlat_trunc y; palt := pz q |})
          l (fst (to_geographic known tr l crs)).
Proof. exact to_geographic_spec. Qed.
Print Assumptions C18_backward_length_order_altitude.

(* there and back through one CRS without errors: same length, same order, every point keeps its altitude.
   Partial: that longitude and latitude come back to within 2e-10 degrees - and that the way back does not end in an error for a valid
   point - is a property of the third-party transform: validated on the code's output at run time, not proved (and false for points
   high above the ellipsoid: finding alt_fed_to_datum) *)
Theorem C18_round_trip_structure_partial : forall known tr l crs,
  let r := round_trip known tr l crs in
  snd (fst r) = None -> snd (snd r) = None ->
  length (fst (snd r)) = length l /\
  Forall2 (fun p g => exists q, fwd_rel tr crs p q /\ back_rel tr crs q g /\ palt g = palt p) l (fst (snd r)).
Proof. exact round_trip_shape. Qed.
Print Assumptions C18_round_trip_structure_partial.
(* the way back ends in an error exactly when some projected image is refused (by the transform or by NewPoint) *)
Theorem C18_round_trip_back_error_iff : forall known tr l crs,
  let r := round_trip known tr l crs in
  snd (fst r) = None -> (snd (snd r) = Some EValueConvert <-> Exists (back_refused tr crs) (fst (fst r))).
Proof. exact round_trip_back_error. Qed.
Print Assumptions C18_round_trip_back_error_iff.

(* an EPSG code the library does not have is reported as a CONVERSION error (code ValueConvertError) together with the empty list, for
   EVERY input list (the empty one included), in both directions. (Was `C18_unknown_epsg_is_error_partial`, guarded by l <> [] and
   silent about the code, before e07a6eb.) *)
Theorem C18_unknown_epsg_is_conversion_error : forall known tr crs, known crs = false ->
  (forall l, to_projected known tr l crs = ([], Some EValueConvert)) /\
  (forall l, to_geographic known tr l crs = ([], Some EValueConvert)).
Proof. exact unknown_epsg. Qed.
Print Assumptions C18_unknown_epsg_is_conversion_error.

(* ... and in ANY call history: the two functions keep no state, so whatever was called before - valid codes, the same unknown code once or
   many times, either direction - the call with the unknown code returns the empty list and a conversion error; more generally every call
   of a history returns what it returns on its own. (On the model; on the code this is what the CallSequence cases of the run check.) *)
Theorem C18_unknown_epsg_is_conversion_error_in_any_history : forall known tr before c after,
  known (call_crs c) = false ->
  exists rb ra r, run_history known tr (before ++ c :: after) = rb ++ r :: ra /\ length rb = length before /\ conversion_error_result r.
Proof. exact unknown_epsg_in_any_history. Qed.
Print Assumptions C18_unknown_epsg_is_conversion_error_in_any_history.
Theorem C18_calls_do_not_depend_on_history : forall known tr h i c,
  nth_error h i = Some c -> nth_error (run_history known tr h) i = Some (run_call known tr c).
Proof. exact history_is_stateless. Qed.
Print Assumptions C18_calls_do_not_depend_on_history.

(* regression Examples for the two repaired defects: what the current control flow does on the former witnesses, and - clearly
   HISTORICAL - what the control flow before the repairs did (old definitions kept in Project.v for this purpose only) *)
Example C18_regression_lat_limit_overshoot_now_error :
  round_trip epsg_known tr_d18 [p_d18] orth_crs = (([q_d18], None), ([], Some EValueConvert)).
Proof. exact lat_limit_overshoot_now_error. Qed.
Print Assumptions C18_regression_lat_limit_overshoot_now_error.
Example C18_HISTORICAL_lat_limit_overshoot_before_dbefda0 :
  to_geographic_old tr_d18 [q_d18] orth_crs = ([ {| plon := 139; plat := 0; palt := 0 |} ], None).
Proof. exact lat_limit_overshoot_historical. Qed.
Print Assumptions C18_HISTORICAL_lat_limit_overshoot_before_dbefda0.
Example C18_regression_unknown_epsg_empty_list_now_error :
  epsg_known 99999 = false /\
  forall tr, to_projected epsg_known tr [] 99999 = ([], Some EValueConvert) /\ to_geographic epsg_known tr [] 99999 = ([], Some EValueConvert).
Proof. exact unknown_epsg_empty_list_now_error. Qed.
Print Assumptions C18_regression_unknown_epsg_empty_list_now_error.
Example C18_HISTORICAL_unknown_epsg_empty_list_before_e07a6eb :
  forall tr crs, to_projected_old tr [] crs = ([], None) /\ to_geographic_old tr [] crs = ([], None).
Proof. exact unknown_epsg_empty_list_historical. Qed.
Print Assumptions C18_HISTORICAL_unknown_epsg_empty_list_before_e07a6eb.

(* ---------------- the run-time checkers decide what they claim ---------------- *)

(* the rational a checker reads off a float is the float's real value (Flocq's SF2R of its IEEE decoding) *)
Theorem C18_checker_reads_float_value : forall f q, fq f = Some q -> Q2R q = BinarySingleNaN.SF2R Zaux.radix2 (Prim2SF f).
Proof. exact fq_value. Qed.
Print Assumptions C18_checker_reads_float_value.

(* easting accepted => |x - R*lon*PI/180| <= 1e-6 m *)
Theorem C18_checker_easting_sound : forall x lon, check_x x lon = true ->
  exists X L, fq x = Some X /\ fq lon = Some L /\ Rabs (Q2R X - merc_x (rad (Q2R L))) <= 1 / 1000000.
Proof. exact check_x_sound. Qed.
Print Assumptions C18_checker_easting_sound.
(* easting rejected => off by more than 1e-6 m minus 1e-25 m (the width of the enclosure of PI) *)
Theorem C18_checker_easting_complete : forall x lon X L, fq x = Some X -> fq lon = Some L -> Rabs (Q2R L) <= 180 ->
  check_x x lon = false -> Rabs (Q2R X - merc_x (rad (Q2R L))) > 1 / 1000000 - 1 / 10 ^ 25.
Proof. exact check_x_complete. Qed.
Print Assumptions C18_checker_easting_complete.

(* northing: the checker compares y (<= 9e-7 m) with a FLOAT reference yr. This theorem is only the triangle inequality: IF that
   reference is within 1e-7 m of R*asinh(tan phi) THEN acceptance means |y - R*asinh(tan phi)| <= 1e-6 m. Partial: nothing here ties yr
   to the latitude or proves the premise; the premise is certified (CoqInterval) per sample by the certificate step for points drawn
   from the same generator as the judged cases, not for the judged cases themselves. No completeness statement for the northing. *)
Theorem C18_checker_northing_sound_partial : forall y yr, fclose y yr tol_ref = true ->
  exists Y YR, fq y = Some Y /\ fq yr = Some YR /\
    forall phi, Rabs (Q2R YR - merc_y phi) <= 1 / 10000000 -> Rabs (Q2R Y - merc_y phi) <= 1 / 1000000.
Proof. exact check_y_sound. Qed.
Print Assumptions C18_checker_northing_sound_partial.

(* round trip of one point accepted <=> longitude within 2e-10 degrees ON THE CIRCLE (the documented identification of +-180, DESIGN 5.3 (i):
   the code returns 180 as -179.99999999999994 and -180 as +179.99999999999994, which this checker accepts),
   latitude within 2e-10 degrees, altitude bit-identical *)
Theorem C18_checker_round_trip_spec : forall p g,
  check_back p g = true <->
  (exists A B, fq (plon g) = Some A /\ fq (plon p) = Some B /\ circle_close (Q2R A) (Q2R B) (2 / 10000000000)) /\
  (exists A B, fq (plat g) = Some A /\ fq (plat p) = Some B /\ Rabs (Q2R A - Q2R B) <= 2 / 10000000000) /\
  feqb_bits (palt g) (palt p) = true.
Proof. exact check_back_spec. Qed.
Print Assumptions C18_checker_round_trip_spec.
(* the finding class alt_fed_to_datum excuses, inside -6e6 m <= alt <= 2^25 m, only this much: easting still within 1e-6 m, northing
   within 9e-7 m + 1.8e-14 * alt^2 * (a/(a+alt))^3 m of the reference; latitude back within 2e-10 + 2.0e-19 * alt^2 * (a/(a+alt))^3
   degrees, longitude still within 2e-10 degrees on the circle, altitude still identical (a = 6378137). The coefficients are measured
   on the code (meta/C18.json), not derived; below -6e6 m (singular zone of the geocentric detour) the class claims no bound. *)
Theorem C18_excuse_is_bounded : forall yref p q g,
  (fwd_excused yref p q = true -> alt_zone_of (palt p) = ZIn ->
   exists A X L Y YR, fq (palt p) = Some A /\ -6000000 <= Q2R A <= 33554432 /\
     fq (px q) = Some X /\ fq (plon p) = Some L /\ Rabs (Q2R X - merc_x (rad (Q2R L))) <= 1 / 1000000 /\
     fq (py q) = Some Y /\ fq (yref (plat p)) = Some YR /\
     Rabs (Q2R Y - Q2R YR) <= 9 / 10000000 + 18 / 10 ^ 15 * (Q2R A * Q2R A * (6378137 / (6378137 + Q2R A)) ^ 3)) /\
  (back_excused p g = true -> alt_zone_of (palt p) = ZIn ->
   exists A B C, fq (palt p) = Some A /\ -6000000 <= Q2R A <= 33554432 /\ fq (plat g) = Some B /\ fq (plat p) = Some C /\
     Rabs (Q2R B - Q2R C) <= 2 / 10 ^ 10 + 2 / 10 ^ 19 * (Q2R A * Q2R A * (6378137 / (6378137 + Q2R A)) ^ 3) /\
     lon_close (plon g) (plon p) = true /\ palt g = palt p).
Proof. exact excuse_is_bounded. Qed.
Print Assumptions C18_excuse_is_bounded.
Theorem C18_checker_bit_equality_is_equality : forall a b, feqb_bits a b = true -> a = b.
Proof. exact feqb_bits_eq. Qed.
Print Assumptions C18_checker_bit_equality_is_equality.

(* ---------------- non-vacuity ---------------- *)
(* finding alt_fed_to_datum (D17): float literals RECORDED from a run of the code (nothing re-derives them at build time; the run-time
   class count keeps the finding alive) - (139, 35) at 1 000 000 m comes back 8.6e-8 degrees off and its northing is
   5.8 mm from the one at height 0; the same point at height 0 passes *)
Example C18_alt_fed_to_datum_witness :
  let p  := {| plon := 139; plat := 35; palt := 0x1.e848p+19 |} in
  let g  := {| plon := 139; plat := 0x1.1800000b8afp+05; palt := 0x1.e848p+19 |} in
  let p0 := {| plon := 139; plat := 35; palt := 0 |} in
  let g0 := {| plon := 139; plat := 0x1.17fffffffc906p+05; palt := 0 |} in
  check_back p g = false /\ check_back p0 g0 = true /\ fclose 0x1.fc49493304376p+21 0x1.fc4949270b2dep+21 tol_m = false.
Proof. exact alt_fed_to_datum_witness. Qed.
Print Assumptions C18_alt_fed_to_datum_witness.
Example C18_domain_nonvacuous : - (PI / 2) < rad 35 < PI / 2 /\ -90 < 35 < 90.
Proof. exact domain_nonvacuous. Qed.
Print Assumptions C18_domain_nonvacuous.
Example C18_wrapper_nonvacuous :
  let tr := fun (_ _ : Z) (a b c : float) => Some ((a + a)%float, (b + 1)%float, 0%float) in
  let l := [ {| plon := 1; plat := 2; palt := 3 |}; {| plon := 1; plat := 2; palt := 4 |} ] in
  to_projected epsg_known tr l 3857 = ([ {| px := 2; py := 3; pz := 3 |}; {| px := 2; py := 3; pz := 4 |} ], None) /\
  to_projected epsg_known tr l 3395 = ([], Some EValueConvert).
Proof. exact to_projected_nonvacuous. Qed.
Print Assumptions C18_wrapper_nonvacuous.
Example C18_backward_nonvacuous :
  let tr := fun (_ _ : Z) (a b c : float) => Some (a, b, 0%float) in
  to_geographic epsg_known tr [ {| px := 10; py := 20; pz := 0x1.b2fffffffffffp+8 |}; {| px := 10; py := 86; pz := 7 |} ] 3857
  = ([ {| plon := 10; plat := 20; palt := 0x1.b2fffffffffffp+8 |} ], Some EValueConvert).
Proof. exact to_geographic_nonvacuous. Qed.
Print Assumptions C18_backward_nonvacuous.
Example C18_checkers_nonvacuous :
  check_x 0x1.d8360270c693ep+23 139 = true /\ check_x 0x1.fc4949270b2dep+21 139 = false /\
  lon_close (-0x1.67ffffffffffep+07) 180 = true /\ lon_close 179 180 = false.
Proof. exact checkers_nonvacuous. Qed.
Print Assumptions C18_checkers_nonvacuous.

(* ---- tie to the source by regeneration (DESIGN.md 4.2): the CRS codes of common/consts read from /repo's current source ---- *)
From SIDGen Require Generated.
From SID Require GenEqConstCrs.
Theorem C18_generated_crs_codes : Generated.GeoCrs = 4326%Z /\ Generated.OrthCrs = 3857%Z.
Proof. split; [exact GenEqConstCrs.gen_GeoCrs_eq | exact GenEqConstCrs.gen_OrthCrs_eq]. Qed.
Print Assumptions C18_generated_crs_codes.

(* ---- the backward direction restated over the float kernels REGENERATED from the Go source (coq/generated/GeneratedF.v):
   GeneratedF.Point_SetLon / Point_SetLat are object.Point's setters as translated from common/object/coordinate.go on every run;
   `to_geographic_gen` is ConvertProjectedPointListToPointList written over them (object.NewPoint = SetLon, SetLat, SetAlt on a zero Point,
   stopping at the first error - this sequence is hand-written, NewPoint is not translated) and over the generated constant Generated.GeoCrs.
   `setters_accept x y lat'` = both generated setters accept and store (x, lat'); `setters_refuse x y` = one of them returns an error. ---- *)
From SIDGen Require GeneratedF.
From SID Require GenC18.

(* without error, on the generated code: output i is what the generated setters store for the transform of input i - longitude as returned,
   latitude as cut by the generated SetLat - with input i's own altitude: same length, same order, altitude bit for bit *)
Theorem C18_backward_over_generated_setters : forall known tr l crs,
  snd (GenC18.to_geographic_gen known tr l crs) = None ->
  Forall2 (fun q g => exists x y z lat', tr crs Generated.GeoCrs (px q) (py q) (pz q) = Some (x, y, z) /\
                                         GenC18.setters_accept x y lat' /\ g = {| plon := x; plat := lat'; palt := pz q |})
          l (fst (GenC18.to_geographic_gen known tr l crs)).
Proof. exact GenC18.backward_over_generated. Qed.
Print Assumptions C18_backward_over_generated_setters.

(* a ValueConvertError exactly when the code is unknown, the transform refuses a point, or a generated setter refuses the transformed
   coordinates of a point; and no other error code *)
Theorem C18_backward_error_iff_over_generated_setters : forall known tr l crs,
  snd (GenC18.to_geographic_gen known tr l crs) = Some EValueConvert <->
  known crs = false \/
  Exists (fun q => tr crs Generated.GeoCrs (px q) (py q) (pz q) = None \/
                   exists x y z, tr crs Generated.GeoCrs (px q) (py q) (pz q) = Some (x, y, z) /\ GenC18.setters_refuse x y) l.
Proof. exact GenC18.backward_error_iff_over_generated. Qed.
Print Assumptions C18_backward_error_iff_over_generated_setters.
Theorem C18_backward_error_kind_over_generated_setters : forall known tr l crs,
  snd (GenC18.to_geographic_gen known tr l crs) = None \/ snd (GenC18.to_geographic_gen known tr l crs) = Some EValueConvert.
Proof. exact GenC18.backward_kind_over_generated. Qed.
Print Assumptions C18_backward_error_kind_over_generated_setters.

(* there and back through the generated constants (source CRS Generated.GeoCrs, planar CRS Generated.OrthCrs), no error: same length and
   order; every point comes back as what the generated setters store for the transformed coordinates, with its own altitude.
   Partial like C18_round_trip_structure_partial: numeric closeness is validated at run time, not proved *)
Theorem C18_round_trip_over_generated_partial : forall known tr l,
  let f := to_projected known tr l Generated.OrthCrs in
  snd f = None -> snd (GenC18.to_geographic_gen known tr (fst f) Generated.OrthCrs) = None ->
  Forall2 (fun p g => exists q x y z lat',
             (exists z', tr Generated.GeoCrs Generated.OrthCrs (plon p) (plat p) (palt p) = Some (px q, py q, z')) /\ pz q = palt p /\
             tr Generated.OrthCrs Generated.GeoCrs (px q) (py q) (pz q) = Some (x, y, z) /\
             GenC18.setters_accept x y lat' /\ g = {| plon := x; plat := lat'; palt := palt p |})
          l (fst (GenC18.to_geographic_gen known tr (fst f) Generated.OrthCrs)).
Proof. exact GenC18.round_trip_over_generated. Qed.
Print Assumptions C18_round_trip_over_generated_partial.

(* the function written over the generated setters is the wrapper model the run compares with the code *)
Theorem C18_generated_backward_is_the_model : forall known tr l crs,
  GenC18.to_geographic_gen known tr l crs = to_geographic known tr l crs.
Proof. exact GenC18.to_geographic_gen_eq. Qed.
Print Assumptions C18_generated_backward_is_the_model.

Example C18_generated_setters_nonvacuous :
  GenC18.setters_accept 139 35 35 /\ GenC18.setters_refuse 139 86 /\ GenC18.setters_refuse 181 0.
Proof. exact GenC18.setters_accept_nonvacuous. Qed.
Print Assumptions C18_generated_setters_nonvacuous.
Example C18_backward_over_generated_nonvacuous :
  let tr := fun (_ _ : Z) (a b c : float) => Some (a, b, 0%float) in
  GenC18.to_geographic_gen epsg_known tr [ {| px := 10; py := 20; pz := 0x1.b2fffffffffffp+8 |}; {| px := 10; py := 86; pz := 7 |} ] Generated.OrthCrs
  = ([ {| plon := 10; plat := 20; palt := 0x1.b2fffffffffffp+8 |} ], Some EValueConvert).
Proof. exact GenC18.backward_over_generated_nonvacuous. Qed.
Print Assumptions C18_backward_over_generated_nonvacuous.
