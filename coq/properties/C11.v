(* C11 — Quadkeys are the bit-interleaving of x and y, and the round trip is exact.
   Only statements, `exact` proofs and Print Assumptions live here. Models and proofs: theories/Quadkey.v (bit level),
   theories/QuadkeyConv.v (list level), theories/DC11.v (run-time checkers).
   ALL theorems are about the executable models (unbounded Z). They transfer to the Go code for quadkey zooms 1..31 — the property's own
   range — where C11_key_bound keeps every partial sum of the encoder below 4^31 = 2^62 (no int64 wrap); from zoom 32 on Go's sum wraps
   ("32/0/2147483648" gives -2^63) and nothing is claimed; both halves are theorems over the regenerated int64 kernels
   (the theorems named C11_int64_...). Otherwise the tie model <-> code is the differential run (corr), not a theorem. *)
From Coq Require Import ZArith String List Lia Bool.
From Coq Require Floats.
From SID Require Import Base Str Ids ZoomCore AltKeyCore ChangeZoom BitAlt Wire Quadkey QuadkeyConv QuadkeyObj DC11 GenC11.
From SIDGen Require Generated Generated64.
From SID Require I64.
From SID Require F64.
Import ListNotations.
Open Scope Z_scope.

(* ---- bit level: `encode h x y` is the model of convertHorizontalIDToQuadkey (two loops with their early exits), `decode q h` the model
   of convertQuadkeyToHorizontalID (walk over the printed base-4 digits, most significant first, break after h characters) ---- *)

(* the key is the sum over the levels i < h of (bit_i x + 2 * bit_i y) * 4^i *)
Theorem C11_key_is_interleaving : forall h x y, 0 <= h -> 0 <= x -> 0 <= y -> encode h x y = interleave h x y.
Proof. exact encode_interleave. Qed.
Print Assumptions C11_key_is_interleaving.

(* digit order: base-4 digit i of the key is (y_i x_i): bit 2i of the key is bit i of x, bit 2i+1 is bit i of y *)
Theorem C11_digit_order : forall h x y i, 0 <= x -> 0 <= y -> 0 <= i < h ->
  Z.testbit (encode h x y) (2 * i) = Z.testbit x i /\ Z.testbit (encode h x y) (2 * i + 1) = Z.testbit y i.
Proof. exact encode_digits. Qed.
Print Assumptions C11_digit_order.

Theorem C11_key_bound : forall h x y, 0 <= h -> 0 <= x -> 0 <= y -> 0 <= encode h x y < 4 ^ h.
Proof. exact encode_bound. Qed.
Print Assumptions C11_key_bound.

(* decoding the key of a tile returns the tile, for every zoom 1..31 and every tile of the grid —
   also when x and y have leading zero bits, i.e. when the printed key is shorter than h digits *)
Theorem C11_decode_encode : forall h x y, 1 <= h <= 31 -> 0 <= x < 2 ^ h -> 0 <= y < 2 ^ h -> decode (encode h x y) h = (x, y).
Proof. intros h x y Hh. exact (decode_encode h x y ltac:(lia)). Qed.
Print Assumptions C11_decode_encode.

(* one-to-one: into ... *)
Theorem C11_key_injective : forall h x y x' y', 1 <= h <= 31 ->
  0 <= x < 2 ^ h -> 0 <= y < 2 ^ h -> 0 <= x' < 2 ^ h -> 0 <= y' < 2 ^ h -> encode h x y = encode h x' y' -> x = x' /\ y = y'.
Proof. intros h x y x' y' Hh. exact (encode_injective h x y x' y' ltac:(lia)). Qed.
Print Assumptions C11_key_injective.
(* ... and onto: every integer 0 <= q < 4^h is the key of the tile the decoder returns, which lies in the grid *)
Theorem C11_key_surjective : forall h q, 1 <= h <= 31 -> 0 <= q < 4 ^ h ->
  let '(x, y) := decode q h in encode h x y = q /\ 0 <= x < 2 ^ h /\ 0 <= y < 2 ^ h.
Proof. intros h q Hh. exact (encode_decode h q ltac:(lia)). Qed.
Print Assumptions C11_key_surjective.

(* the string interface of the encoder on a printed "h/x/y" *)
Theorem C11_encoder_reads_printed_tile : forall h x y, int64_ok h = true -> int64_ok x = true -> int64_ok y = true ->
  encode_str (join [print h; print x; print y]) = Some (encode h x y).
Proof. exact encode_str_print. Qed.
Print Assumptions C11_encoder_reads_printed_tile.

(* ---- list level. `zrel i oh ov j`: j is at zooms (oh, ov) and on each axis related to i by the zoom change of C03
   (the coarser index is the floor-ancestor of the finer). ---- *)

(* GENERIC, for ANY vertical function `vert` (index form, altitude keys, and the binary-subdivision form of a real height range
   maxHeight > minHeight, property C17) and ANY input strings, valid or not: whenever the conversion succeeds, every group reports the output
   zooms and the request's parameters unchanged and is non-empty, no pair occurs twice across the groups, and the reported pairs are exactly
   the pairs of the input IDs. (The model is parametric in the parameter type, so "unchanged" is true of the model by construction; for the
   code it is the run-time comparison `par_eqb` of every returned group.) *)
Theorem C11_groups_generic : forall (P : Type) (oh ov : Z) (par : P) (vert : Z -> Z -> result (list Z)) ids gs,
  conv oh ov par vert ids = Ok gs ->
  (forall g, In g gs -> g_hz g = oh /\ g_vz g = ov /\ g_par g = par /\ g_pairs g <> []) /\
  NoDup (List.concat (map g_pairs gs)) /\
  (forall p, In p (List.concat (map g_pairs gs)) <-> exists s ps, In s ids /\ id_pairs oh vert s = Ok ps /\ In p ps).
Proof. exact @conv_groups_generic. Qed.
Print Assumptions C11_groups_generic.
(* instance: a real height range, vertical axis = C17's model of convertVerticallIDToBit *)
Theorem C11_groups_height_range : forall oh ov (mx mn : PrimFloat.float) ids gs,
  conv oh ov (mx, mn) (fun v f => Ok (vid_to_bit v f ov mx mn)) ids = Ok gs ->
  (forall g, In g gs -> g_hz g = oh /\ g_vz g = ov /\ g_par g = (mx, mn) /\ g_pairs g <> []) /\
  NoDup (List.concat (map g_pairs gs)) /\
  (forall p, In p (List.concat (map g_pairs gs)) <->
     exists s ps, In s ids /\ id_pairs oh (fun v f => Ok (vid_to_bit v f ov mx mn)) s = Ok ps /\ In p ps).
Proof. intros oh ov mx mn. exact (conv_groups_generic oh ov (mx, mn) (fun v f => Ok (vid_to_bit v f ov mx mn))). Qed.
Print Assumptions C11_groups_height_range.

(* ConvertExtendedSpatialIDsToQuadkeysAndVerticalIDs without a height range, on any list of valid IDs (repeats, nested IDs, both signs of f):
   never an error; every group reports the output zooms and the request's parameters unchanged and is non-empty; no pair occurs twice across
   the groups; the pairs are exactly (interleaved key, vertical index) of the zoom-changed IDs *)
Theorem C11_ids_to_pairs : forall (P : Type) (par : P) es oh ov, qcheck oh ov = true -> Forall valid es ->
  exists gs, e2q par true (map print_eid es) oh ov = Ok gs /\
    (forall g, In g gs -> g_hz g = oh /\ g_vz g = ov /\ g_par g = par /\ g_pairs g <> []) /\
    NoDup (List.concat (map g_pairs gs)) /\
    (forall q f, In (q, f) (List.concat (map g_pairs gs)) <->
       exists i j, In i es /\ zrel i oh ov j /\ q = interleave oh (ex j) (ey j) /\ f = ef j).
Proof. exact @e2q_spec. Qed.
Print Assumptions C11_ids_to_pairs.
(* the same, stated against the C03 model: the pairs are (key, index) of ChangeZoom.change_eids es oh ov *)
Theorem C11_ids_to_pairs_is_C03 : forall (P : Type) (par : P) es oh ov, qcheck oh ov = true -> Forall valid es ->
  exists gs, e2q par true (map print_eid es) oh ov = Ok gs /\
    forall q f, In (q, f) (List.concat (map g_pairs gs)) <->
      exists j, In j (change_eids es oh ov) /\ q = interleave oh (ex j) (ey j) /\ f = ef j.
Proof. exact @e2q_spec_change. Qed.
Print Assumptions C11_ids_to_pairs_is_C03.

(* ConvertQuadkeysAndVerticalIDsToExtendedSpatialIDs on valid keys (0 <= key < 4^zoom, zooms 1..31 x 0..35, no height range):
   exactly the zoom-changed IDs of the decoded tiles, no ID twice *)
Theorem C11_pairs_to_ids : forall items oh ov, Forall qvalid items -> echeck oh ov = true ->
  exists l, q2e items oh ov = Ok l /\ NoDup l /\
    forall s, In s l <-> exists it j, In it items /\ zrel (tile_of it) oh ov j /\ s = print_eid j.
Proof. exact q2e_spec. Qed.
Print Assumptions C11_pairs_to_ids.

(* IDs -> pairs at (oh, ov) -> IDs at (bh, bv) = the two successive per-axis zoom changes *)
Theorem C11_round_trip_is_zoom_change : forall (P : Type) (par : P) es oh ov bh bv,
  qcheck oh ov = true -> echeck bh bv = true -> Forall valid es ->
  exists gs back, e2q par true (map print_eid es) oh ov = Ok gs /\ q2e (items_of gs) bh bv = Ok back /\ NoDup back /\
    forall s, In s back <-> exists i m j, In i es /\ zrel i oh ov m /\ zrel m bh bv j /\ s = print_eid j.
Proof. exact @roundtrip_spec. Qed.
Print Assumptions C11_round_trip_is_zoom_change.
(* literally: the printed IDs of change_eids (change_eids es oh ov) bh bv *)
Theorem C11_round_trip_is_C03 : forall (P : Type) (par : P) es oh ov bh bv,
  qcheck oh ov = true -> echeck bh bv = true -> Forall valid es ->
  exists gs back, e2q par true (map print_eid es) oh ov = Ok gs /\ q2e (items_of gs) bh bv = Ok back /\ NoDup back /\
    forall s, In s back <-> exists j, In j (change_eids (change_eids es oh ov) bh bv) /\ s = print_eid j.
Proof. exact @roundtrip_spec_change. Qed.
Print Assumptions C11_round_trip_is_C03.

(* same zooms: the round trip returns exactly the original IDs (as a set: a repeated input comes back once) *)
Theorem C11_round_trip_exact : forall (P : Type) (par : P) es oh ov, qcheck oh ov = true -> Forall valid es ->
  (forall i, In i es -> eh i = oh /\ ev i = ov) ->
  exists gs back, e2q par true (map print_eid es) oh ov = Ok gs /\ q2e (items_of gs) oh ov = Ok back /\ NoDup back /\
    forall s, In s back <-> In s (map print_eid es).
Proof. exact @roundtrip_same. Qed.
Print Assumptions C11_round_trip_exact.

(* altitude-key form: same horizontal part, the vertical axis is the key range of ConvertZToMinMaxAltitudekey (C12); zBaseExponent and
   zBaseOffset are reported unchanged. Extra hypothesis: every altitude range exists at the output zoom (otherwise the call is refused:
   C11_altitudekey_request_refused). AltKeyCore.z2key itself refuses zooms outside 0..35 (repair 9dab435). *)
Theorem C11_ids_to_altitudekey_pairs : forall es oq oa E O, qcheck oq oa = true -> Forall valid es ->
  (forall i, In i es -> is_ok (z2key (ef i) (ev i) oa E O) = true) ->
  exists gs, e2qa (map print_eid es) oq oa E O = Ok gs /\
    (forall g, In g gs -> g_hz g = oq /\ g_vz g = oa /\ g_par g = (E, O) /\ g_pairs g <> []) /\
    NoDup (List.concat (map g_pairs gs)) /\
    (forall q k, In (q, k) (List.concat (map g_pairs gs)) <->
       exists i x' y' mn mx, In i es /\ rel1 (eh i) (ex i) oq x' /\ rel1 (eh i) (ey i) oq y' /\ q = interleave oq x' y' /\
         z2key (ef i) (ev i) oa E O = Ok (mn, mx) /\ mn <= k <= mx).
Proof. exact e2qa_spec. Qed.
Print Assumptions C11_ids_to_altitudekey_pairs.

(* spatial-ID notation = conjugation by the field permutation *)
Theorem C11_spatial_ids_to_pairs : forall (P : Type) (par : P) b (l : list (Z * Z * Z * Z)) oh ov,
  s2q par b (map (fun t => let '(z, f, x, y) := t in print_sid z f x y) l) oh ov =
  e2q par b (map print_eid (map (fun t => let '(z, f, x, y) := t in mk z x y z f) l)) oh ov.
Proof. exact @s2q_conjugation. Qed.
Print Assumptions C11_spatial_ids_to_pairs.
Theorem C11_pairs_to_spatial_ids : forall items z, Forall qvalid items -> echeck z z = true ->
  exists l, q2s items z = Ok l /\ NoDup l /\
    forall s, In s l <-> exists it j, In it items /\ zrel (tile_of it) z z j /\ s = print_sid z (ef j) (ex j) (ey j).
Proof. exact q2s_spec_nodup. Qed.
Print Assumptions C11_pairs_to_spatial_ids.

(* ---- refusals (of the model; the run-time checkers demand an error from the code in exactly these cases) ---- *)
Theorem C11_bad_output_zoom_refused : forall (P : Type) (par : P) b ids oh ov, qcheck oh ov = false -> e2q par b ids oh ov = Err.
Proof. exact @e2q_bad_zoom. Qed.
Print Assumptions C11_bad_output_zoom_refused.
Theorem C11_malformed_id_refused : forall (P : Type) (par : P) b ids oh ov s, In s ids -> parse_eid s = None -> e2q par b ids oh ov = Err.
Proof. exact @e2q_malformed. Qed.
Print Assumptions C11_malformed_id_refused.
Theorem C11_inverted_heights_refused : forall (P : Type) (par : P) ids oh ov, ids <> [] -> e2q par false ids oh ov = Err.
Proof. exact @e2q_inverted_heights. Qed.
Print Assumptions C11_inverted_heights_refused.
(* everything the checker treats as "must be an error" for the ID -> pair conversions: output zoom, malformed ID, ID zoom outside 0..35, inverted heights *)
Theorem C11_ids_request_refused : forall (P : Type) (par : P) ids oh ov idx, must_err_e2q ids oh ov idx = true -> e2q par idx ids oh ov = Err.
Proof. exact @must_err_e2q_sound. Qed.
Print Assumptions C11_ids_request_refused.
Theorem C11_malformed_spatial_id_refused : forall (P : Type) (par : P) b sids oh ov s, In s sids -> sid_to_eid_str s = None -> s2q par b sids oh ov = Err.
Proof. exact @s2q_malformed. Qed.
Print Assumptions C11_malformed_spatial_id_refused.
Theorem C11_altitudekey_request_refused : forall ids oq oa E O, must_err_e2qa ids oq oa E O = true -> e2qa ids oq oa E O = Err.
Proof. exact must_err_e2qa_sound. Qed.
Print Assumptions C11_altitudekey_request_refused.
(* pairs -> IDs: output zoom outside 0..35, or an element — at any position — with zooms outside 1..31 x 0..35, a key above the literal
   limit, or inverted heights *)
Theorem C11_pairs_request_refused : forall items oh ov, must_err_q2e items oh ov = true -> q2e items oh ov = Err.
Proof. exact must_err_q2e_sound. Qed.
Print Assumptions C11_pairs_request_refused.
Theorem C11_pairs_to_spatial_request_refused : forall items z it, In it items -> item_refused it = true -> q2s items z = Err.
Proof. exact q2s_refuses. Qed.
Print Assumptions C11_pairs_to_spatial_request_refused.

(* ---- the run-time checkers. Inside the property's quantifier (valid IDs / keys, zooms in range) and for a well-formed non-error observation
   each checker accepts exactly when the Prop-level statement holds of the observed output; an error there is rejected; a request the
   model refuses must be answered with an error. Outside the quantifier but accepted by the library (index outside the grid, key >= 4^zoom,
   negative key) the element is judged against the model's own answer — no theorem. ---- *)
Theorem C11_key_checker_sound : forall h x y key, 1 <= h <= 31 -> 0 <= x < 2 ^ h -> 0 <= y < 2 ^ h ->
  check_key h x y key = true <-> key = interleave h x y /\ 0 <= key < 4 ^ h.
Proof. exact check_key_sound. Qed.
Print Assumptions C11_key_checker_sound.
(* for every input of the hook (negative, wider than the zoom, zoom below 1) the model's key passes the checker *)
Theorem C11_key_checker_accepts_model : forall h x y, check_key h x y (encode h x y) = true.
Proof. exact check_key_model. Qed.
Print Assumptions C11_key_checker_accepts_model.
Theorem C11_tile_checker_sound : forall q z x y, 1 <= z <= 31 -> 0 <= q < 4 ^ z -> check_tile q z x y = true <-> (x, y) = decode q z.
Proof. exact check_tile_sound. Qed.
Print Assumptions C11_tile_checker_sound.
Theorem C11_key_round_trip_checker_sound : forall h x y key x' y', 1 <= h <= 31 -> 0 <= x < 2 ^ h -> 0 <= y < 2 ^ h ->
  check_rt h x y key x' y' = true <-> key = interleave h x y /\ 0 <= key < 4 ^ h /\ x' = x /\ y' = y.
Proof. exact check_rt_sound. Qed.
Print Assumptions C11_key_round_trip_checker_sound.
Theorem C11_group_checker_sound : forall ids es oh ov p gs obs, ids_domain ids = Some es -> qcheck oh ov = true ->
  is_err obs = false -> dec_groups obs = Some gs ->
  check_e2q ids oh ov true p obs = true <->
  (forall g, In g gs -> g_hz g = oh /\ g_vz g = ov /\ par_eqb (g_par g) p = true /\ g_pairs g <> []) /\
  NoDup (List.concat (map g_pairs gs)) /\
  (forall q f, In (q, f) (List.concat (map g_pairs gs)) <->
     exists i j, In i es /\ zrel i oh ov j /\ q = interleave oh (ex j) (ey j) /\ f = ef j).
Proof. exact check_e2q_sound. Qed.
Print Assumptions C11_group_checker_sound.
Theorem C11_group_checker_rejects_error : forall ids es oh ov p obs, ids_domain ids = Some es -> qcheck oh ov = true -> is_err obs = true ->
  check_e2q ids oh ov true p obs = false.
Proof. exact check_e2q_rejects_error. Qed.
Print Assumptions C11_group_checker_rejects_error.
Theorem C11_group_checker_demands_error : forall ids oh ov idx p obs, must_err_e2q ids oh ov idx = true -> check_e2q ids oh ov idx p obs = is_err obs.
Proof. exact check_e2q_demands_error. Qed.
Print Assumptions C11_group_checker_demands_error.
Theorem C11_id_list_checker_sound : forall items oh ov o obs, Forall qvalid items -> echeck oh ov = true -> is_err obs = false -> as_LS obs = Some o ->
  check_q2e items oh ov obs = true <->
  NoDup o /\ forall s, In s o <-> exists it j, In it items /\ zrel (tile_of it) oh ov j /\ s = print_eid j.
Proof. exact check_q2e_sound. Qed.
Print Assumptions C11_id_list_checker_sound.
Theorem C11_id_list_checker_demands_error : forall items oh ov obs, must_err_q2e items oh ov = true -> check_q2e items oh ov obs = is_err obs.
Proof. exact check_q2e_demands_error. Qed.
Print Assumptions C11_id_list_checker_demands_error.
Theorem C11_dedup_checker_sound : forall inp obs, check_dedup inp obs = true <-> NoDup obs /\ forall s, In s obs <-> In s inp.
Proof. exact check_dedup_sound. Qed.
Print Assumptions C11_dedup_checker_sound.
Theorem C11_altitudekey_group_checker_sound : forall ids es oq oa E O gs obs, ids_domain ids = Some es -> qcheck oq oa = true ->
  (forall i, In i es -> is_ok (z2key (ef i) (ev i) oa E O) = true) -> is_err obs = false -> dec_groups obs = Some gs ->
  check_e2qa ids oq oa E O obs = true <->
  (forall g, In g gs -> g_hz g = oq /\ g_vz g = oa /\ par_eqb (g_par g) (VZ E, VZ O) = true /\ g_pairs g <> []) /\
  NoDup (List.concat (map g_pairs gs)) /\
  (forall q k, In (q, k) (List.concat (map g_pairs gs)) <->
     exists i x' y' mn mx, In i es /\ rel1 (eh i) (ex i) oq x' /\ rel1 (eh i) (ey i) oq y' /\ q = interleave oq x' y' /\
       z2key (ef i) (ev i) oa E O = Ok (mn, mx) /\ mn <= k <= mx).
Proof. exact check_e2qa_sound. Qed.
Print Assumptions C11_altitudekey_group_checker_sound.
Theorem C11_altitudekey_group_checker_demands_error : forall ids oq oa E O obs, must_err_e2qa ids oq oa E O = true -> check_e2qa ids oq oa E O obs = is_err obs.
Proof. exact check_e2qa_demands_error. Qed.
Print Assumptions C11_altitudekey_group_checker_demands_error.
Theorem C11_round_trip_checker_sound : forall ids es oh ov bh bv p og ob gs back, ids_domain ids = Some es ->
  qcheck oh ov = true -> echeck bh bv = true -> is_err og = false -> dec_groups og = Some gs -> as_LS ob = Some back ->
  check_roundtrip ids oh ov bh bv p (VL [og; ob]) = true <->
  ((forall g, In g gs -> g_hz g = oh /\ g_vz g = ov /\ par_eqb (g_par g) p = true /\ g_pairs g <> []) /\
   NoDup (List.concat (map g_pairs gs)) /\
   (forall q f, In (q, f) (List.concat (map g_pairs gs)) <->
      exists i j, In i es /\ zrel i oh ov j /\ q = interleave oh (ex j) (ey j) /\ f = ef j)) /\
  NoDup back /\
  (forall s, In s back <-> exists i m j, In i es /\ zrel i oh ov m /\ zrel m bh bv j /\ s = print_eid j) /\
  (same_zooms es oh ov bh bv = true -> forall s, In s back <-> In s (map print_eid es)).
Proof. exact check_roundtrip_sound. Qed.
Print Assumptions C11_round_trip_checker_sound.
Theorem C11_spatial_id_list_checker_sound : forall items z o obs, Forall qvalid items -> echeck z z = true -> is_err obs = false -> as_LS obs = Some o ->
  check_q2s items z obs = true <->
  NoDup o /\ forall s, In s o <-> exists it j, In it items /\ zrel (tile_of it) z z j /\ s = print_sid z (ef j) (ex j) (ey j).
Proof. exact check_q2s_sound. Qed.
Print Assumptions C11_spatial_id_list_checker_sound.

(* ---- object wiring (theories/QuadkeyObj.v): the quadkey-side objects of common/object/id_object.go as records; run-time entry `Params` ---- *)
(* FromExtendedSpatialIDToQuadkeyAndVerticalID: every setter replaces exactly its own field by its argument and leaves the others alone *)
Theorem C11_vertical_object_setters : forall (I : Type) (o : vobj I) z l f,
  v_set_qz z o = mkvobj z (v_inner o) (v_vz o) (v_max o) (v_min o) /\
  v_set_inner l o = mkvobj (v_qz o) l (v_vz o) (v_max o) (v_min o) /\
  v_set_vz z o = mkvobj (v_qz o) (v_inner o) z (v_max o) (v_min o) /\
  v_set_max f o = mkvobj (v_qz o) (v_inner o) (v_vz o) f (v_min o) /\
  v_set_min f o = mkvobj (v_qz o) (v_inner o) (v_vz o) (v_max o) f.
Proof. exact @vobj_laws. Qed.
Print Assumptions C11_vertical_object_setters.
(* each getter after its setter returns the argument; the two heights never influence each other (no clamping) *)
Theorem C11_vertical_object_get_set : forall (I : Type) (o : vobj I) z l f,
  v_qz (v_set_qz z o) = z /\ v_inner (v_set_inner l o) = l /\ v_vz (v_set_vz z o) = z /\ v_max (v_set_max f o) = f /\ v_min (v_set_min f o) = f /\
  v_min (v_set_max f o) = v_min o /\ v_max (v_set_min f o) = v_max o.
Proof. exact @vobj_get_set. Qed.
Print Assumptions C11_vertical_object_get_set.
Theorem C11_altitudekey_object_setters : forall (I : Type) (o : aobj I) z l,
  a_set_qz z o = mkaobj z (a_inner o) (a_az o) (a_exp o) (a_off o) /\
  a_set_inner l o = mkaobj (a_qz o) l (a_az o) (a_exp o) (a_off o) /\
  a_set_az z o = mkaobj (a_qz o) (a_inner o) z (a_exp o) (a_off o) /\
  a_set_exp z o = mkaobj (a_qz o) (a_inner o) (a_az o) z (a_off o) /\
  a_set_off z o = mkaobj (a_qz o) (a_inner o) (a_az o) (a_exp o) z.
Proof. exact @aobj_laws. Qed.
Print Assumptions C11_altitudekey_object_setters.
Theorem C11_key_object_setters : forall (o : qobj) z f,
  q_set_qz z o = mkqobj z (q_key o) (q_vz o) (q_vi o) (q_max o) (q_min o) /\
  q_set_key z o = mkqobj (q_qz o) z (q_vz o) (q_vi o) (q_max o) (q_min o) /\
  q_set_vz z o = mkqobj (q_qz o) (q_key o) z (q_vi o) (q_max o) (q_min o) /\
  q_set_vi z o = mkqobj (q_qz o) (q_key o) (q_vz o) z (q_max o) (q_min o) /\
  q_set_max f o = mkqobj (q_qz o) (q_key o) (q_vz o) (q_vi o) f (q_min o) /\
  q_set_min f o = mkqobj (q_qz o) (q_key o) (q_vz o) (q_vi o) (q_max o) f.
Proof. exact qobj_laws. Qed.
Print Assumptions C11_key_object_setters.
(* the constructors (= the setters in the order the code calls them, on the zero object) read back exactly their arguments *)
Theorem C11_constructors_read_back : forall (I : Type) (nil_inner : I),
  (forall qz l vz mx mn, new_v nil_inner qz l vz mx mn = mkvobj qz l vz mx mn) /\
  (forall qz l az e off, new_a nil_inner qz l az e off = mkaobj qz l az e off) /\
  (forall qz key vz vi mx mn, new_q qz key vz vi mx mn = mkqobj qz key vz vi mx mn).
Proof. exact (fun I n => conj (new_v_reads_back n) (conj (new_a_reads_back n) new_q_reads_back)). Qed.
Print Assumptions C11_constructors_read_back.
(* SetInnerIDList keeps the caller's slice itself: a later write of the caller is what InnerIDList() shows; other slices are unaffected *)
Theorem C11_stored_slice_is_shared : forall s sid idx p, (sid < List.length s)%nat ->
  deref (write s sid idx p) (Some sid) = upd_nth idx p (deref s (Some sid)).
Proof. exact stored_slice_is_shared. Qed.
Print Assumptions C11_stored_slice_is_shared.
Theorem C11_other_slices_untouched : forall s sid sid' idx p, sid <> sid' -> deref (write s sid idx p) (Some sid') = deref s (Some sid').
Proof. exact other_slices_untouched. Qed.
Print Assumptions C11_other_slices_untouched.
(* tie to the conversions: every object the ID -> pair conversions return is the constructor applied to the REQUEST's output zooms and
   parameters (any vertical function, any input), so its getters report them unchanged *)
Theorem C11_returned_objects_are_constructor_results : forall oh ov (mx mn : PrimFloat.float) vert ids gs,
  conv oh ov (mx, mn) vert ids = Ok gs ->
  forall g, In g gs -> g = group_of_v (new_v [] oh (g_pairs g) ov mx mn) /\ g_pairs g <> [].
Proof. exact groups_are_constructed_v. Qed.
Print Assumptions C11_returned_objects_are_constructor_results.
Theorem C11_returned_altitudekey_objects_are_constructor_results : forall oq oa E O ids gs, e2qa ids oq oa E O = Ok gs ->
  forall g, In g gs -> g = group_of_a (new_a [] oq (g_pairs g) oa E O) /\ g_pairs g <> [].
Proof. exact groups_are_constructed_a. Qed.
Print Assumptions C11_returned_altitudekey_objects_are_constructor_results.

(* ---- statements on the regenerated constants (an edit of the bounds of transform.quadkeyCheckZoom or of consts.InnerID*Index in /repo breaks
   GenEqCheck.gen_QuadkeyZoom_eq / GenEqConstQuadkey.gen_InnerID_eq, on which these depend) ---- *)
Theorem C11_zoom_window_is_the_generated_bounds : forall h v,
  qcheck h v = (Generated.QuadkeyZoom_hZoom_min <=? h) && (h <=? Generated.QuadkeyZoom_hZoom_max) &&
               (Generated.QuadkeyZoom_vZoom_min <=? v) && (v <=? Generated.QuadkeyZoom_vZoom_max).
Proof. exact qcheck_generated. Qed.
Print Assumptions C11_zoom_window_is_the_generated_bounds.
Theorem C11_decode_encode_on_the_generated_window : forall h x y,
  Generated.QuadkeyZoom_hZoom_min <= h <= Generated.QuadkeyZoom_hZoom_max -> 0 <= x < 2 ^ h -> 0 <= y < 2 ^ h -> decode (encode h x y) h = (x, y).
Proof. exact decode_encode_generated. Qed.
Print Assumptions C11_decode_encode_on_the_generated_window.
Theorem C11_pair_components_by_the_generated_indices : forall p,
  inner_at p Generated.InnerIDQuadkeyIndex = fst p /\ inner_at p Generated.InnerIDAltitudekeyIndex = snd p.
Proof. exact inner_at_generated. Qed.
Print Assumptions C11_pair_components_by_the_generated_indices.
Theorem C11_altitudekey_pairs_by_the_generated_indices : forall es oq oa E O, qcheck oq oa = true -> Forall valid es ->
  (forall i, In i es -> is_ok (z2key (ef i) (ev i) oa E O) = true) ->
  exists gs, e2qa (map print_eid es) oq oa E O = Ok gs /\
    forall p, In p (List.concat (map g_pairs gs)) ->
      exists i x' y' mn mx, In i es /\ rel1 (eh i) (ex i) oq x' /\ rel1 (eh i) (ey i) oq y' /\
        inner_at p Generated.InnerIDQuadkeyIndex = interleave oq x' y' /\
        z2key (ef i) (ev i) oa E O = Ok (mn, mx) /\ mn <= inner_at p Generated.InnerIDAltitudekeyIndex <= mx.
Proof. exact e2qa_spec_indexed. Qed.
Print Assumptions C11_altitudekey_pairs_by_the_generated_indices.

(* ---- int64 (theories/GenC11.v over SIDGen.Generated64, the integer kernels of /repo regenerated with Go's int64 semantics explicit):
   the transfer of the key theorems to the Go encoder for quadkey zooms <= 31 is a THEOREM about the regenerated step kernels, and the
   first zoom beyond has a computed wrap witness. `encode64` = the X loop then the Y loop over Generated64's cond/step kernels (the loop
   structure and the string parsing around them are written by hand). ---- *)
Theorem C11_int64_encoder_is_exact_up_to_zoom_31 : forall h x y, 0 <= h <= 31 -> 0 <= x < 2 ^ 63 -> 0 <= y < 2 ^ 63 ->
  encode64 h x y = Some (encode h x y, true).
Proof. exact encode64_fits. Qed.
Print Assumptions C11_int64_encoder_is_exact_up_to_zoom_31.
Theorem C11_int64_key_is_interleaving : forall h x y, 1 <= h <= 31 -> 0 <= x < 2 ^ h -> 0 <= y < 2 ^ h ->
  I64.fits (encode64 h x y) = true /\ I64.go_value (encode64 h x y) = Some (interleave h x y).
Proof. exact encode64_is_interleaving. Qed.
Print Assumptions C11_int64_key_is_interleaving.
Theorem C11_int64_wraps_at_zoom_32 :
  encode64 32 0 (2 ^ 31) = Some (- 2 ^ 63, false) /\ encode 32 0 (2 ^ 31) = 2 ^ 63 /\
  Generated64.convertHorizontalIDToQuadkey_stepY 0 31 1 32 = Some ((- 2 ^ 63, 32, 0), false).
Proof. exact encode64_wraps_at_zoom_32. Qed.
Print Assumptions C11_int64_wraps_at_zoom_32.
Theorem C11_int64_step_without_overflow_is_the_unbounded_step : forall q i t h r,
  (Generated64.convertHorizontalIDToQuadkey_stepX q i t h = Some (r, true) -> r = Generated.convertHorizontalIDToQuadkey_stepX q i t h) /\
  (Generated64.convertHorizontalIDToQuadkey_stepY q i t h = Some (r, true) -> r = Generated.convertHorizontalIDToQuadkey_stepY q i t h).
Proof. exact step64_exact. Qed.
Print Assumptions C11_int64_step_without_overflow_is_the_unbounded_step.
Theorem C11_int64_zoom_check_is_the_window : forall h v, Generated64.quadkeyCheckZoom h v = I64.ret (qcheck h v).
Proof. exact qcheck64. Qed.
Print Assumptions C11_int64_zoom_check_is_the_window.

(* ---- non-vacuity ---- *)
(* the tile pinned by the unit tests, and a tile whose key has leading zero digits (x = 1, y = 0 at zoom 31: key 1, printed "1") *)
Example C11_nonvacuous_keys :
  encode 6 24 53 = 2914 /\ decode 2914 6 = (24, 53) /\ encode 31 1 0 = 1 /\ decode 1 31 = (1, 0) /\
  encode 31 (2 ^ 31 - 1) (2 ^ 31 - 1) = 4 ^ 31 - 1 /\ decode 0 1 = (0, 0).
Proof. vm_compute. repeat split; reflexivity. Qed.
(* the conversions on a list with a repeated ID, a nested ID and a negative vertical index *)
Example C11_nonvacuous_lists :
  Forall valid [mk 6 24 53 26 51; mk 6 24 53 26 51; mk 5 12 26 25 (-1)] /\ qcheck 6 26 = true /\
  e2q tt true ["6/24/53/26/51"; "6/24/53/26/51"; "5/12/26/25/-1"]%string 6 26 =
    Ok [mkg 6 26 tt [(2914, 51)];
        mkg 6 26 tt [(2912, -2); (2912, -1); (2913, -2); (2913, -1); (2914, -2); (2914, -1); (2915, -2); (2915, -1)]] /\
  q2e [mkq 6 2914 26 51 true] 6 26 = Ok ["6/24/53/26/51"%string].
Proof. split; [repeat constructor; unfold valid; cbn; lia|]. vm_compute. repeat split; reflexivity. Qed.
(* the altitude-key hypothesis (every range exists) is satisfiable, and the same-zoom round trip returns a repeated input once *)
Example C11_nonvacuous_altitudekeys :
  valid (mk 6 24 53 25 7) /\ qcheck 6 25 = true /\ is_ok (z2key 7 25 25 25 8) = true /\
  e2qa ["6/24/53/25/7"]%string 6 25 25 8 = Ok [mkg 6 25 (25, 8) [(2914, 15)]].
Proof. split; [unfold valid; cbn; lia|]. vm_compute. repeat split; reflexivity. Qed.
Example C11_nonvacuous_round_trip :
  Forall valid [mk 6 24 53 26 (-51); mk 6 24 53 26 (-51); mk 6 0 63 26 0] /\
  match e2q tt true ["6/24/53/26/-51"; "6/24/53/26/-51"; "6/0/63/26/0"]%string 6 26 with
  | Ok gs => q2e (items_of gs) 6 26 = Ok ["6/24/53/26/-51"; "6/0/63/26/0"]%string
  | Err => False
  end.
Proof. split; [repeat constructor; unfold valid; cbn; lia|]. vm_compute. reflexivity. Qed.
(* the height-range instance of the generic group theorem has a successful call to speak about *)
Example C11_nonvacuous_height_range :
  is_ok (conv 6 3 (F64.of_Z 256, F64.of_Z (-256)) (fun v f => Ok (vid_to_bit v f 3 (F64.of_Z 256) (F64.of_Z (-256)))) ["6/24/53/26/51"; "6/24/53/26/51"]%string) = true.
Proof. vm_compute. reflexivity. Qed.

(* object sequences: inverted heights are stored as given (no clamping); the stored slice is shared with the caller and with the slice the
   getter returned; a setter of one object does not show on the other *)
Example C11_nonvacuous_objects :
  run_steps None None [[(1, 2); (3, 4)]]
    [(false, SNewV 6 (Some 0%nat) 26 (F64.of_Z 1) (F64.of_Z 5)); (true, SNewA 7 None 3 25 8);
     (false, SCallerWrite 0 1 (9, 9)); (false, SGetterWrite 0 (5, 5)); (false, SSetF "SetMaxHeight" (F64.of_Z (-2)))] =
  Some ([(([6; 26], [F64.of_Z 1; F64.of_Z 5], [(1, 2); (3, 4)]), ([], [], []));
         (([6; 26], [F64.of_Z 1; F64.of_Z 5], [(1, 2); (3, 4)]), ([7; 3; 25; 8], [], []));
         (([6; 26], [F64.of_Z 1; F64.of_Z 5], [(1, 2); (9, 9)]), ([7; 3; 25; 8], [], []));
         (([6; 26], [F64.of_Z 1; F64.of_Z 5], [(5, 5); (9, 9)]), ([7; 3; 25; 8], [], []));
         (([6; 26], [F64.of_Z (-2); F64.of_Z 5], [(5, 5); (9, 9)]), ([7; 3; 25; 8], [], []))],
        [[(5, 5); (9, 9)]]).
Proof. vm_compute. reflexivity. Qed.

(* int64: the pinned tile and the largest tile of zoom 31 through the regenerated int64 kernels, no overflow flag *)
Example C11_nonvacuous_int64 :
  encode64 6 24 53 = Some (2914, true) /\ encode64 31 (2 ^ 31 - 1) (2 ^ 31 - 1) = Some (4 ^ 31 - 1, true).
Proof. vm_compute. split; reflexivity. Qed.

(* ---- tie to the source by regeneration (DESIGN.md 4.2): transform.quadkeyCheckZoom translated from /repo's current source is the zoom window 1..31 x 0..35 ---- *)
From SIDGen Require Generated.
From SID Require GenEqCheck.
Theorem C11_generated_quadkeyCheckZoom_is_the_window : forall h v,
  Generated.quadkeyCheckZoom h v = (((1 <=? h) && (h <=? 31)) && Ids.check_zoom v)%bool.
Proof. exact GenEqCheck.gen_quadkeyCheckZoom_eq. Qed.
Print Assumptions C11_generated_quadkeyCheckZoom_is_the_window.
