(* C05 — Overlap detection answers exactly whether two voxel sets intersect.
   Only statements, `exact` proofs and Print Assumptions live here (plus non-vacuity `Example`s, evaluated by vm_compute/lia). Every theorem is about
   the hand-written executable MODELS of the Go functions; the models are tied to the Go text by the differential runs and, for the integer kernels,
   by the regeneration block at the end of this file. Models and proofs: theories/Overlap.v (detector functions),
   theories/Radix.v (the third-party radix tree as the detector observes it), theories/Digits.v (its branch digits).
   Vocabulary: `overlaps i j` (Ids.v) = on the horizontal axes and on the vertical axis the index at the coarser zoom is the floor-ancestor of
   the index at the finer zoom (ancestor-or-equal on both axes); `inR i p` (Voxel.v) = the point p lies in the half-open box of voxel i. *)
From Coq Require Import ZArith String List Bool Lia Reals.
From Flocq Require Import Core.
From SID Require Import Base Str Ids Voxel ZoomCore AltKeyCore ChangeZoom Radix Digits Overlap DC05.
Import ListNotations.
Open Scope Z_scope.

(* ---- extended-ID form (CheckExtendedSpatialIdsOverlap / ...ArrayOverlap) ---- *)

(* any two strings that parse to valid IDs (any mix of zooms, negative f): no error, and the answer is the ancestor-or-equal relation *)
Theorem C05_extended_pair_is_the_ancestor_relation : forall a b i j,
  parse_eid a = Some i -> parse_eid b = Some j -> valid i -> valid j -> ext_overlap a b = Ok (overlapsb i j).
Proof. exact ext_overlap_spec. Qed.
Print Assumptions C05_extended_pair_is_the_ancestor_relation.

(* symmetric for ALL strings (malformed ones included: same error both ways) *)
Theorem C05_extended_pair_symmetric : forall a b, ext_overlap a b = ext_overlap b a.
Proof. exact ext_overlap_sym. Qed.
Print Assumptions C05_extended_pair_symmetric.

Theorem C05_extended_pair_reflexive : forall a i, parse_eid a = Some i -> valid i -> ext_overlap a a = Ok true.
Proof. exact ext_overlap_refl. Qed.
Print Assumptions C05_extended_pair_reflexive.
(* and an ID against itself is never answered `false`, whatever the string *)
Theorem C05_extended_pair_never_false_on_itself : forall a, ext_overlap a a = Err \/ ext_overlap a a = Ok true.
Proof. exact ext_overlap_refl_any. Qed.
Print Assumptions C05_extended_pair_never_false_on_itself.

(* a malformed ID (not five int64 fields) on either side is an error, whatever the dropped Atoi results were *)
Theorem C05_extended_pair_rejects_malformed : forall a b, parse_eid a = None \/ parse_eid b = None -> ext_overlap a b = Err.
Proof. exact ext_overlap_malformed. Qed.
Print Assumptions C05_extended_pair_rejects_malformed.
(* `extendedSpatialIds[0]` cannot be out of range: a successful conversion of a one-element list is not empty *)
Theorem C05_extended_pair_index0_exists : forall a H V r, change_ext_api [a] H V = Ok r -> r <> [].
Proof. exact change_single_nonempty. Qed.
Print Assumptions C05_extended_pair_index0_exists.

(* the array form on valid lists: no error, = disjunction over all pairs of the relation *)
Theorem C05_extended_array_is_exists_pair : forall l1 l2 e1 e2, parse_all l1 = Some e1 -> parse_all l2 = Some e2 ->
  (forall i, In i e1 -> valid i) -> (forall j, In j e2 -> valid j) ->
  ext_array l1 l2 = Ok (existsb (fun i => existsb (overlapsb i) e2) e1).
Proof. exact ext_array_spec. Qed.
Print Assumptions C05_extended_array_is_exists_pair.
(* ... = disjunction of the pairwise FUNCTION over all pairs, and always an answer *)
Theorem C05_extended_array_is_disjunction_of_pairwise : forall l1 l2 e1 e2, parse_all l1 = Some e1 -> parse_all l2 = Some e2 ->
  (forall i, In i e1 -> valid i) -> (forall j, In j e2 -> valid j) ->
  (ext_array l1 l2 = Ok true <-> exists a b, In a l1 /\ In b l2 /\ ext_overlap a b = Ok true) /\
  (ext_array l1 l2 = Ok true \/ ext_array l1 l2 = Ok false).
Proof. exact ext_array_pairwise. Qed.
Print Assumptions C05_extended_array_is_disjunction_of_pairwise.
Theorem C05_extended_array_on_singletons_is_pairwise : forall a b, ext_array [a] [b] = ext_overlap a b.
Proof. exact ext_array_single. Qed.
Print Assumptions C05_extended_array_on_singletons_is_pairwise.
Theorem C05_extended_array_symmetric : forall l1 l2 e1 e2, parse_all l1 = Some e1 -> parse_all l2 = Some e2 ->
  (forall i, In i e1 -> valid i) -> (forall j, In j e2 -> valid j) -> ext_array l1 l2 = ext_array l2 l1.
Proof. exact ext_array_sym. Qed.
Print Assumptions C05_extended_array_symmetric.
(* either list empty: false — for every content of the other list *)
Theorem C05_extended_array_empty_first : forall l2, ext_array [] l2 = Ok false.
Proof. exact ext_array_nil_l. Qed.
Print Assumptions C05_extended_array_empty_first.
Theorem C05_extended_array_empty_second : forall l1, ext_array l1 [] = Ok false.
Proof. exact ext_array_nil_r. Qed.
Print Assumptions C05_extended_array_empty_second.

(* ---- the radix tree as the detector observes it ---- *)

(* IsOverlap on the tree holding the keys S: true iff some stored key is a prefix of the query or the query is a prefix of a stored key *)
Theorem C05_radix_search_is_prefix_relation : forall keys q,
  rsearch q (rbuild keys) = true <-> exists k, In k keys /\ (prefix k q \/ prefix q k).
Proof. exact overlap_spec. Qed.
Print Assumptions C05_radix_search_is_prefix_relation.
(* neither the order of the appends nor repetitions matter *)
Theorem C05_radix_search_depends_on_key_set_only : forall keys keys' q, (forall k, In k keys <-> In k keys') ->
  rsearch q (rbuild keys) = rsearch q (rbuild keys').
Proof. exact overlap_set_only. Qed.
Print Assumptions C05_radix_search_depends_on_key_set_only.
(* the digit list of the model is the list of the library's branch numbers (BranchPath/pickup: bit z-1-l of f', x, y at level l) *)
Theorem C05_digits_are_the_library_branch_numbers : forall n f x y,
  digits n f x y = map (fun l => branch_path (Z.of_nat n) f x y (Z.of_nat l)) (seq 0 n).
Proof. exact digits_branch_path. Qed.
Print Assumptions C05_digits_are_the_library_branch_numbers.
(* key prefix <-> floor-ancestor on all three coordinates (coordinates inside [0, 2^zoom)) *)
Theorem C05_key_prefix_is_ancestor_on_three_axes : forall (za d : nat) fa xa ya fb xb yb,
  0 <= fa < 2 ^ Z.of_nat za -> 0 <= xa < 2 ^ Z.of_nat za -> 0 <= ya < 2 ^ Z.of_nat za ->
  0 <= fb < 2 ^ Z.of_nat (d + za) -> 0 <= xb < 2 ^ Z.of_nat (d + za) -> 0 <= yb < 2 ^ Z.of_nat (d + za) ->
  (prefix (digits za fa xa ya) (digits (d + za) fb xb yb) <->
   fb / 2 ^ Z.of_nat d = fa /\ xb / 2 ^ Z.of_nat d = xa /\ yb / 2 ^ Z.of_nat d = ya).
Proof. exact prefix_iff_anc. Qed.
Print Assumptions C05_key_prefix_is_ancestor_on_three_axes.
(* the vertical offset f' = f + 2^(z-1) commutes with the floor-ancestor (coarser zoom >= 1) *)
Theorem C05_offset_commutes_with_ancestor : forall za zb fa fb, 1 <= za <= zb ->
  anc (zb - za) (fb + 2 ^ (zb - 1)) = fa + 2 ^ (za - 1) <-> anc (zb - za) fb = fa.
Proof. exact offset_anc. Qed.
Print Assumptions C05_offset_commutes_with_ancestor.
(* hence, for IDs of the documented domain, stored and searched keys are prefix-related exactly when the voxels are related *)
Theorem C05_keys_related_iff_voxels_related : forall a b, sdom a -> sdom b ->
  (prefix (qkey a) (qkey b) \/ prefix (qkey b) (qkey a)) <-> overlaps a b.
Proof. exact key_overlap_iff. Qed.
Print Assumptions C05_keys_related_iff_voxels_related.

(* the tree model by itself, for any keys and queries with coordinates in [0, 2^zoom) (zoom 0 included): Append all, then IsOverlap =
   some stored key is related to the query by ancestor-or-equal on all three coordinates *)
Theorem C05_radix_tree_is_ancestor_relation : forall keys qs,
  (forall k, In k keys -> in_range4 k) -> (forall q, In q qs -> in_range4 q) -> tree_model keys qs = tree_ref keys qs.
Proof. exact tree_model_is_ref. Qed.
Print Assumptions C05_radix_tree_is_ancestor_relation.

(* ---- spatial-ID form (CheckSpatialIdsOverlap / ...ArrayOverlap) ---- *)

(* the offset conversion, exactly — for EVERY zoom and EVERY index: zoom within 0..35 (the zoom check of ConvertZToMinMaxAltitudekey) and
   inside the altitude domain (zoom >= 1 and -2^(z-1) <= f < 2^(z-1), i.e. -2^24 m <= altitude < 2^24 m): the index moved by 2^(z-1);
   otherwise an error (zoom 0, zooms 36.., negative zooms, indices beyond the domain) *)
Theorem C05_offset_conversion_exact : forall z f,
  fkey f z = if zoom_ok z && altdomb z f then Ok (f + 2 ^ (z - 1)) else Err.
Proof. exact fkey_exact. Qed.
Print Assumptions C05_offset_conversion_exact.
Theorem C05_offset_conversion_error_iff : forall z f, fkey f z = Err <-> ~ (0 <= z <= 35 /\ altdom z f).
Proof. exact fkey_err_iff. Qed.
Print Assumptions C05_offset_conversion_error_iff.
Theorem C05_zoom0_is_outside_the_altitude_domain : forall f, fkey f 0 = Err.
Proof. exact fkey_zoom0. Qed.
Print Assumptions C05_zoom0_is_outside_the_altitude_domain.
Theorem C05_zoom_outside_0_35_is_refused : forall z f, z < 0 \/ 35 < z -> fkey f z = Err.
Proof. exact fkey_bad_zoom. Qed.
Print Assumptions C05_zoom_outside_0_35_is_refused.

(* on the documented domain (sdom: zoom 1..35, x, y in range, altitude within +-2^24 m): never an error, = disjunction over all pairs *)
Theorem C05_spatial_array_is_exists_pair : forall l1 l2 e1 e2,
  map_opt parse_sid l1 = Some e1 -> map_opt parse_sid l2 = Some e2 ->
  (forall i, In i e1 -> sdom i) -> (forall j, In j e2 -> sdom j) ->
  sp_array l1 l2 = Ok (existsb (fun i => existsb (overlapsb i) e2) e1).
Proof. exact sp_array_spec. Qed.
Print Assumptions C05_spatial_array_is_exists_pair.
Theorem C05_spatial_pair_is_the_ancestor_relation : forall a b i j,
  parse_sid a = Some i -> parse_sid b = Some j -> sdom i -> sdom j -> sp_overlap a b = Ok (overlapsb i j).
Proof. exact sp_overlap_spec. Qed.
Print Assumptions C05_spatial_pair_is_the_ancestor_relation.
(* ... = disjunction of the pairwise FUNCTION over all pairs, and always an answer (mirror of the extended theorem) *)
Theorem C05_spatial_array_is_disjunction_of_pairwise : forall l1 l2 e1 e2,
  map_opt parse_sid l1 = Some e1 -> map_opt parse_sid l2 = Some e2 ->
  (forall i, In i e1 -> sdom i) -> (forall j, In j e2 -> sdom j) ->
  (sp_array l1 l2 = Ok true <-> exists a b, In a l1 /\ In b l2 /\ sp_overlap a b = Ok true) /\
  (sp_array l1 l2 = Ok true \/ sp_array l1 l2 = Ok false).
Proof. exact sp_array_pairwise. Qed.
Print Assumptions C05_spatial_array_is_disjunction_of_pairwise.
Theorem C05_spatial_array_symmetric : forall l1 l2 e1 e2, map_opt parse_sid l1 = Some e1 -> map_opt parse_sid l2 = Some e2 ->
  (forall i, In i e1 -> sdom i) -> (forall j, In j e2 -> sdom j) -> sp_array l1 l2 = sp_array l2 l1.
Proof. exact sp_array_sym. Qed.
Print Assumptions C05_spatial_array_symmetric.
Theorem C05_spatial_pair_reflexive : forall a i, parse_sid a = Some i -> sdom i -> sp_overlap a a = Ok true.
Proof. exact sp_overlap_refl. Qed.
Print Assumptions C05_spatial_pair_reflexive.
Theorem C05_spatial_array_empty_first : forall l2 e2, map_opt parse_sid l2 = Some e2 -> (forall j, In j e2 -> sdom j) -> sp_array [] l2 = Ok false.
Proof. exact sp_array_nil_l. Qed.
Print Assumptions C05_spatial_array_empty_first.
Theorem C05_spatial_array_empty_second : forall l1 e1, map_opt parse_sid l1 = Some e1 -> (forall i, In i e1 -> sdom i) -> sp_array l1 [] = Ok false.
Proof. exact sp_array_nil_r. Qed.
Print Assumptions C05_spatial_array_empty_second.

(* the tree-based and the zoom-change-based implementation agree on the same voxels (spatial notation vs its extended notation) *)
Theorem C05_both_implementations_agree : forall l1 l2 e1 e2,
  map_opt parse_sid l1 = Some e1 -> map_opt parse_sid l2 = Some e2 ->
  (forall i, In i e1 -> sdom i) -> (forall j, In j e2 -> sdom j) ->
  exists m1 m2, sids_to_eids l1 = Ok m1 /\ sids_to_eids l2 = Ok m2 /\ sp_array l1 l2 = ext_array m1 m2.
Proof. exact sp_equals_ext. Qed.
Print Assumptions C05_both_implementations_agree.

(* exactly when the pairwise form fails on two well-formed IDs: one of them is outside the conversion's domain
   (convdom i := 0 <= zoom <= 35 /\ altdom zoom f, i.e. zoom 1..35 and altitude within +-2^24 m) *)
Theorem C05_spatial_pair_error_exactly_outside_altitude_domain : forall a b i j,
  parse_sid a = Some i -> parse_sid b = Some j -> sp_overlap a b = Err <-> ~ convdom i \/ ~ convdom j.
Proof. exact sp_overlap_error_iff. Qed.
Print Assumptions C05_spatial_pair_error_exactly_outside_altitude_domain.
(* the first list is always examined completely: a malformed or out-of-domain member anywhere in it is an error *)
Theorem C05_spatial_array_first_list_error : forall l1 l2 s, In s l1 ->
  (parse_sid s = None \/ exists i, parse_sid s = Some i /\ ~ (0 <= eh i <= 35 /\ altdom (eh i) (ef i))) -> sp_array l1 l2 = Err.
Proof. exact sp_array_first_list_error. Qed.
Print Assumptions C05_spatial_array_first_list_error.
Theorem C05_spatial_pair_rejects_malformed : forall a b, parse_sid a = None \/ parse_sid b = None -> sp_overlap a b = Err.
Proof. exact sp_overlap_malformed. Qed.
Print Assumptions C05_spatial_pair_rejects_malformed.
(* getSpatialIdAttrs fails exactly on strings that are not four int64 fields (every field is checked) *)
Theorem C05_getSpatialIdAttrs_error_iff : forall s, sid_attrs s = Err <->
  ~ exists a b c d z f x y, split s = [a; b; c; d] /\ parse a = Some z /\ parse b = Some f /\ parse c = Some x /\ parse d = Some y.
Proof. exact sid_attrs_spec. Qed.
Print Assumptions C05_getSpatialIdAttrs_error_iff.

(* ---- region reading ("share interior volume") ---- *)
(* Regions are the half-open boxes of Voxel.inR in normalised coordinates (u = longitude fraction, w = Mercator fraction, a = altitude / 2^25 m;
   the maps to degrees / metres are monotone bijections per axis and are not part of this statement).
   (1) the reference answer is true exactly when a voxel of the first list and a voxel of the second share a point of their boxes; *)
Theorem C05_related_iff_regions_share_a_point : forall e1 e2, (forall i, In i e1 -> valid i) -> (forall j, In j e2 -> valid j) ->
  existsb (fun i => existsb (overlapsb i) e2) e1 = true <-> exists i j p, In i e1 /\ In j e2 /\ inR i p /\ inR j p.
Proof. exact overlap_region. Qed.
Print Assumptions C05_related_iff_regions_share_a_point.
(* (2) for two related voxels the common part of the boxes is itself a voxel box — that of the per-axis finer indices; *)
Theorem C05_related_boxes_intersect_in_a_voxel_box : forall i j, 0 <= eh i -> 0 <= ev i -> 0 <= eh j -> 0 <= ev j -> overlaps i j ->
  forall p, inR (finer i j) p <-> inR i p /\ inR j p.
Proof. exact related_boxes_intersect_in_a_box. Qed.
Print Assumptions C05_related_boxes_intersect_in_a_voxel_box.
(* (3) and every voxel box has interior (hence positive volume): all points within a quarter cell of its centre, on each axis, are inside.
   (1)-(3): related <-> the boxes share a point <-> they share a box with non-empty interior; unrelated <-> the boxes are disjoint. *)
Theorem C05_voxel_box_has_interior : forall o, 0 <= eh o -> 0 <= ev o ->
  forall du dw da : R,
    (Rabs du <= bpow radix2 (- eh o - 2))%R -> (Rabs dw <= bpow radix2 (- eh o - 2))%R -> (Rabs da <= bpow radix2 (- ev o - 2))%R ->
    inR o (((IZR (ex o) + / 2) * bpow radix2 (- eh o) + du)%R, ((IZR (ey o) + / 2) * bpow radix2 (- eh o) + dw)%R,
           ((IZR (ef o) + / 2) * bpow radix2 (- ev o) + da)%R).
Proof. exact voxel_box_has_interior. Qed.
Print Assumptions C05_voxel_box_has_interior.

(* ---- the run-time checker ---- *)
Theorem C05_checker_sound : forall e1 e2 obs, check_overlap e1 e2 obs = true <->
  exists b, obs = Ok b /\ (b = true <-> exists i j, In i e1 /\ In j e2 /\ overlaps i j).
Proof. exact check_overlap_sound. Qed.
Print Assumptions C05_checker_sound.
Theorem C05_dispatch_checker_is_the_specification_ext : forall l1 l2 e1 e2 obs, parse_all l1 = Some e1 -> parse_all l2 = Some e2 ->
  forallb validb e1 = true -> forallb validb e2 = true -> (chk_ext l1 l2 obs = true <-> spec_overlap e1 e2 obs).
Proof. exact chk_ext_is_spec. Qed.
Print Assumptions C05_dispatch_checker_is_the_specification_ext.
Theorem C05_dispatch_checker_is_the_specification_spatial : forall l1 l2 e1 e2 obs, map_opt parse_sid l1 = Some e1 -> map_opt parse_sid l2 = Some e2 ->
  forallb sdomb e1 = true -> forallb sdomb e2 = true -> (chk_sp l1 l2 obs = true <-> spec_overlap e1 e2 obs).
Proof. exact chk_sp_is_spec. Qed.
Print Assumptions C05_dispatch_checker_is_the_specification_spatial.
(* inputs with members outside the quantifier: the dispatch checker is then the per-member fallback — `false` without error implies that no two
   in-quantifier members are related, `true` implies two non-empty lists *)
Theorem C05_fallback_checker_sound : forall v1 v2 n1 n2 obs, check_fallback v1 v2 n1 n2 obs = true <->
  (obs = Ok false -> ~ exists i j, In i v1 /\ In j v2 /\ overlaps i j) /\ (obs = Ok true -> n1 = true /\ n2 = true).
Proof. exact check_fallback_sound. Qed.
Print Assumptions C05_fallback_checker_sound.
Theorem C05_dispatch_checker_on_any_input_ext : forall l1 l2 obs, chk_ext l1 l2 obs = true ->
  (exists e1 e2, parse_all l1 = Some e1 /\ parse_all l2 = Some e2 /\ forallb validb e1 = true /\ forallb validb e2 = true /\ spec_overlap e1 e2 obs) \/
  spec_fallback (vmem l1) (vmem l2) (nonnil l1) (nonnil l2) obs.
Proof. exact chk_ext_otherwise. Qed.
Print Assumptions C05_dispatch_checker_on_any_input_ext.
Theorem C05_dispatch_checker_on_any_input_spatial : forall l1 l2 obs, chk_sp l1 l2 obs = true ->
  (exists e1 e2, map_opt parse_sid l1 = Some e1 /\ map_opt parse_sid l2 = Some e2 /\ forallb sdomb e1 = true /\ forallb sdomb e2 = true /\ spec_overlap e1 e2 obs) \/
  spec_fallback (smem l1) (smem l2) (nonnil l1) (nonnil l2) obs.
Proof. exact chk_sp_otherwise. Qed.
Print Assumptions C05_dispatch_checker_on_any_input_spatial.
(* no false alarm: on EVERY input (inside or outside the quantifier) the models' own answers pass the dispatch checkers *)
Theorem C05_models_pass_checker : forall l1 l2, chk_ext l1 l2 (ext_array l1 l2) = true /\ chk_sp l1 l2 (sp_array l1 l2) = true.
Proof. exact (fun l1 l2 => conj (model_passes_ext l1 l2) (model_passes_sp l1 l2)). Qed.
Print Assumptions C05_models_pass_checker.
Theorem C05_tree_model_passes_checker : forall K Q, tree_prop K Q (tree_model K Q) = true.
Proof. exact model_passes_tree. Qed.
Print Assumptions C05_tree_model_passes_checker.

(* ---- histories: the models are pure, so every step of a sequence is judged exactly like a standalone call ---- *)
(* the answer to a call after ANY history is the answer of the standalone call (same for any two histories) *)
Theorem C05_model_answer_is_history_independent : forall h1 h2 c,
  nth (length h1) (eval_seq (h1 ++ [c])) Err = eval_call c /\ nth (length h2) (eval_seq (h2 ++ [c])) Err = eval_call c.
Proof. exact eval_seq_history_independent. Qed.
Print Assumptions C05_model_answer_is_history_independent.
Theorem C05_model_sequence_is_stepwise : forall h cs, eval_seq (h ++ cs) = eval_seq h ++ eval_seq cs.
Proof. exact eval_seq_app. Qed.
Print Assumptions C05_model_sequence_is_stepwise.
(* the dispatch entry OverlapSequence judges a sequence after any prefix by the verdicts of its own steps *)
Theorem C05_sequence_verdicts_are_stepwise : forall h oh cs os, length h = length oh ->
  run_calls (h ++ cs) (oh ++ os) = match run_calls h oh, run_calls cs os with Some a, Some b => Some (a ++ b) | _, _ => None end.
Proof. exact run_calls_app. Qed.
Print Assumptions C05_sequence_verdicts_are_stepwise.
(* every spatial call builds its tree from the empty tree: nothing stored by an earlier call can be seen *)
Theorem C05_spatial_call_starts_from_the_empty_tree : forall l1 l2,
  sp_array l1 l2 = match sp_insert l1 rempty with Err => Err | Ok t => sp_query (match l1 with [] => true | _ => false end) t l2 end.
Proof. exact sp_array_starts_from_empty_tree. Qed.
Print Assumptions C05_spatial_call_starts_from_the_empty_tree.
(* the one stateful model, the radix tree (entry RadixOps: Append / IsOverlap in any interleaving on one tree): every query is answered by the keys
   appended before it, through the ancestor-or-equal relation on the three coordinates — the trie specification the overlap proof uses
   (Radix.stored_append, twf_append, search_spec, Digits.prefix_iff_anc), now under every history; in particular duplicates, the order of the appends
   and earlier queries are irrelevant *)
Theorem C05_radix_ops_meet_the_trie_specification : forall ops, (forall o, In o ops -> in_range4 (rop_key o)) ->
  run_ops rempty ops = ops_ref [] ops.
Proof. exact run_ops_spec_empty. Qed.
Print Assumptions C05_radix_ops_meet_the_trie_specification.
Theorem C05_radix_ops_after_any_stored_keys : forall ops seen, (forall k, In k seen -> in_range4 k) -> (forall o, In o ops -> in_range4 (rop_key o)) ->
  run_ops (rbuild (map tkey seen)) ops = ops_ref seen ops.
Proof. exact run_ops_spec. Qed.
Print Assumptions C05_radix_ops_after_any_stored_keys.
Theorem C05_radix_answers_depend_on_the_stored_key_set_only : forall ops s1 s2, (forall k, In k s1 <-> In k s2) -> ops_ref s1 ops = ops_ref s2 ops.
Proof. exact ops_ref_set_only. Qed.
Print Assumptions C05_radix_answers_depend_on_the_stored_key_set_only.
Theorem C05_radix_ops_model_passes_checker : forall ops, forallb rop_ok ops = true -> list_eqb Bool.eqb (ops_ref [] ops) (run_ops rempty ops) = true.
Proof. exact model_passes_radix_ops. Qed.
Print Assumptions C05_radix_ops_model_passes_checker.

(* ---- non-vacuity, and the inputs on which the independently seeded changes differ from the code ---- *)
Example C05_ex_domain : sdom (mk 26 0 0 26 (-5)) /\ valid (mk 3 7 0 4 (-16)) /\ altdom 35 (- 2 ^ 34) /\ ~ altdom 3 4.
Proof. unfold sdom, valid, altdom; cbn. lia. Qed.

Open Scope string_scope.
Example C05_ex_crossed_zooms :   (* finer vertically, equal horizontally; the finer index is not the first child *)
  ext_overlap "16/58209/25805/17/3" "16/58209/25805/16/1" = Ok true /\
  ext_overlap "4/14/6/25/101" "5/28/12/24/50" = Ok true /\
  ext_overlap "10/909/403/30/-3" "10/909/403/28/-1" = Ok true /\
  ext_overlap "1/0/0/2/-1" "1/0/0/1/0" = Ok false /\ ext_overlap "1/0/0/2/-1" "1/0/0/1/-1" = Ok true.
Proof. vm_compute. repeat split. Qed.
Example C05_ex_child_before_parent :   (* the parent follows its own descendant in the first list and must still be stored *)
  sp_array ["16/0/58198/25804"; "13/0/7274/3225"] ["16/0/58199/25804"] = Ok true /\
  sp_array ["16/-3/58199/25805"; "13/-1/7274/3225"] ["16/-8/58192/25800"] = Ok true /\
  sp_array ["26/0/0/0"] ["26/1/0/0"] = Ok false /\ sp_array [] ["3/0/0/0"] = Ok false /\
  sp_overlap "0/0/0/0" "0/0/0/0" = Err /\ sp_overlap "3/4/0/0" "3/3/0/0" = Err /\ sp_overlap "1/b/0/0" "1/0/0/0" = Err /\
  sp_overlap "36/0/0/0" "36/0/0/0" = Err /\ sp_overlap "63/0/0/0" "1/0/0/0" = Err /\ sp_overlap "1/0/0/0" "-1/0/0/0" = Err /\
  sp_overlap "-9223372036854775808/0/0/0" "1/0/0/0" = Err.
Proof. vm_compute. repeat split. Qed.

(* histories: the same call answered identically after an unrelated call, after an invalid call and after itself; an operation sequence with a
   duplicate insert, the empty key and a query between the inserts *)
Example C05_ex_histories :
  eval_seq [CSpArray ["1/0/0/0"] ["1/0/1/1"]; CSpPair "3/4/0/0" "3/3/0/0"; CSpArray ["16/0/58198/25804"; "13/0/7274/3225"] ["16/0/58199/25804"];
            CSpArray ["16/0/58198/25804"; "13/0/7274/3225"] ["16/0/58199/25804"]; CExtPair "20/5/7/25/-2" "20/5/7/24/-1"]
    = [Ok false; Err; Ok true; Ok true; Ok true] /\
  run_ops rempty [RAppend (2, 1, 2, 3); RQuery (1, 0, 1, 1); RQuery (1, 1, 1, 1); RAppend (2, 1, 2, 3); RAppend (3, 7, 0, 0);
                  RQuery (2, 3, 0, 0); RAppend (0, 0, 0, 0); RQuery (5, 31, 0, 31)] = [true; false; true; true].
Proof. split; vm_compute; reflexivity. Qed.
Close Scope string_scope.
(* ---- tie to the source by regeneration (DESIGN.md 4.2): the integer kernels the detector stands on, translated from /repo's current source on
   every run (generated/Generated.v), are the models the theorems above are stated on. The detector's own control flow (min of the zooms, `[0]`
   comparison, the two tree loops) is NOT regenerated: it is tied by the differential runs only. ---- *)
From SIDGen Require Generated.
From SID Require GenTac GenEqZoom GenEqAlt GenEqCheck.
Theorem C05_generated_VerticalZoom_bounds_are_the_model : forall zin f zout,
  Generated.VerticalZoom_minmax zin f zout = ZoomCore.vzoom_minmax zin f zout.
Proof. exact GenEqZoom.gen_VerticalZoom_minmax_eq. Qed.
Print Assumptions C05_generated_VerticalZoom_bounds_are_the_model.
Theorem C05_generated_HorizontalZoomMinMax_is_the_model : forall zin x y zout,
  Generated.HorizontalZoomMinMax zin x y zout = ZoomCore.hzoom_minmax zin x y zout.
Proof. exact GenEqZoom.gen_HorizontalZoomMinMax_eq. Qed.
Print Assumptions C05_generated_HorizontalZoomMinMax_is_the_model.
Theorem C05_generated_CheckZoom_is_the_model : forall z, Generated.CheckZoom z = Ids.check_zoom z.
Proof. exact GenEqCheck.gen_CheckZoom_eq. Qed.
Print Assumptions C05_generated_CheckZoom_is_the_model.
Theorem C05_generated_ConvertZToMinMaxAltitudekey_is_the_model : forall f z out E O,
  Generated.ConvertZToMinMaxAltitudekey f z out E O = GenTac.enc_zz (AltKeyCore.z2key f z out E O).
Proof. exact GenEqAlt.gen_ConvertZToMinMaxAltitudekey_eq. Qed.
Print Assumptions C05_generated_ConvertZToMinMaxAltitudekey_is_the_model.
Theorem C05_generated_offset_constants : Generated.ZBaseOffsetForNegativeFIndex = 2 ^ 24 /\
  Generated.ZBaseOffsetForNegativeFIndex = AltKeyCore.zbase_offset_neg /\ Generated.ZOriginValue = AltKeyCore.zorigin.
Proof. exact (conj GenEqAlt.gen_ZBaseOffsetForNegativeFIndex_val (conj GenEqAlt.gen_ZBaseOffsetForNegativeFIndex_eq GenEqAlt.gen_ZOriginValue_eq)). Qed.
Print Assumptions C05_generated_offset_constants.

(* ---- the same kernels with Go's int64 semantics explicit (generated/Generated64.v; theories/GenC05.v): on the property's domain — zooms
   0..35, |index| <= 2^zoom; for the altitude key EVERY int64 vertical index — the int64 code does not panic (Some), no intermediate
   leaves the int64 range (flag true) and the value is the unbounded model's. This discharges, for these kernels, the sentence
   "int64 arithmetic does not wrap on the property's domain" that meta/C05.json lists as an assumption; it stays one for the hand-written
   loops, string handling and tree loops. ---- *)
From SIDGen Require Generated64.
From SID Require GenC05.
Theorem C05_int64_HorizontalZoomMinMax_is_the_model : forall zin x y zout,
  0 <= zin <= 35 -> 0 <= zout <= 35 -> Z.abs x <= 2 ^ zin -> Z.abs y <= 2 ^ zin ->
  Generated64.HorizontalZoomMinMax zin x y zout = Some (ZoomCore.hzoom_minmax zin x y zout, true).
Proof. exact GenC05.c05_int64_HorizontalZoomMinMax_is_model. Qed.
Print Assumptions C05_int64_HorizontalZoomMinMax_is_the_model.
Theorem C05_int64_VerticalZoom_bounds_are_the_model : forall zin f zout,
  0 <= zin <= 35 -> 0 <= zout <= 35 -> Z.abs f <= 2 ^ zin ->
  Generated64.VerticalZoom_minmax zin f zout = Some (ZoomCore.vzoom_minmax zin f zout, true).
Proof. exact GenC05.c05_int64_VerticalZoom_minmax_is_model. Qed.
Print Assumptions C05_int64_VerticalZoom_bounds_are_the_model.
Theorem C05_int64_CheckZoom_is_the_model : forall z, Generated64.CheckZoom z = Some (Ids.check_zoom z, true).
Proof. exact GenC05.c05_int64_CheckZoom_is_model. Qed.
Print Assumptions C05_int64_CheckZoom_is_the_model.
Theorem C05_int64_detector_altitude_key_is_the_model : forall f z, 0 <= z <= 35 ->
  Generated64.ConvertZToMinMaxAltitudekey f z z Generated.ZOriginValue Generated.ZBaseOffsetForNegativeFIndex =
  Some (GenTac.enc_zz (AltKeyCore.z2key f z z AltKeyCore.zorigin AltKeyCore.zbase_offset_neg), true).
Proof. exact GenC05.c05_int64_detector_altitude_key_is_model. Qed.
Print Assumptions C05_int64_detector_altitude_key_is_the_model.
Theorem C05_int64_detector_altitude_key_never_panics_never_wraps : forall f z, 0 <= z <= 35 ->
  exists r, Generated64.ConvertZToMinMaxAltitudekey f z z Generated.ZOriginValue Generated.ZBaseOffsetForNegativeFIndex = Some (r, true).
Proof. exact GenC05.c05_int64_detector_altitude_key_total. Qed.
Print Assumptions C05_int64_detector_altitude_key_never_panics_never_wraps.
Example C05_int64_kernels_evaluated :
  Generated64.ConvertZToMinMaxAltitudekey (-1) 25 25 Generated.ZOriginValue Generated.ZBaseOffsetForNegativeFIndex = Some ((2 ^ 24 - 1, 2 ^ 24 - 1, false), true) /\
  Generated64.ConvertZToMinMaxAltitudekey 1 26 26 Generated.ZOriginValue Generated.ZBaseOffsetForNegativeFIndex = Some ((2 ^ 25 + 1, 2 ^ 25 + 1, false), true) /\
  Generated64.VerticalZoom_minmax 3 (-1) 1 = Some (ZoomCore.vzoom_minmax 3 (-1) 1, true) /\ ZoomCore.vzoom_minmax 3 (-1) 1 = (-1, -1).
Proof. exact GenC05.c05_int64_examples. Qed.
