(* C20 — The exported helper algebra obeys its mathematical laws.
   Only statements, `exact` proofs and Print Assumptions live here.
   Models and proofs: theories/SetOps.v (set helpers, Max/Min, arithmetic shift), AShiftR.v (shift over the reals), Comb.v (Combinations),
   Vec.v / Quat.v (vectors, lines, matrices, rotation quaternion over the reals), VecF.v (binary64 models and the run-time law checkers). *)
From Coq Require Import ZArith List Bool Permutation Reals QArith Qabs Sorting.Sorted Floats.
From Flocq Require Import Core.
From Flocq Require Raux.
From SIDGen Require GeneratedF GeneratedFS Generated64.
From SID Require Import Base F64 SetOps SetMore AShiftR Comb Vec Quat VecF VecExact OrdMax PointLaws FloatId MatCtor GenEqFSTac GenEqFSCommon GenEqFSR3 GenEqFSVector GenEqFSMatrix GenEqFSPoint GenEqFSLine GenEqFSQuat GenC20.
Import ListNotations.

(* ================= set helpers: for every element type whose == is Leibniz equality (hypothesis eqb_spec) and EVERY map iteration order.
   TYPE RESTRICTION: Go's `comparable` is wider. The laws below hold for integers, strings, booleans, pointers, and structs/arrays of
   these; they are FALSE at float64 when NaN occurs (Unique([NaN,NaN]) has two elements, Include([NaN],NaN) = false) and interface
   elements can make == panic. NaN-free float64 lists are run (+0 and -0 are one key) and judged up to ==. ================= *)
Section SetHelpers.
  Context {A : Type} (eqb : A -> A -> bool) (eqb_spec : forall a b, reflect (a = b) (eqb a b)).
  Variable ord : list A -> list A.                       (* the order in which Go ranges over a map *)
  Hypothesis ord_perm : forall l, Permutation (ord l) l.

  Theorem C20_union_is_union : forall l1 l2 a, In a (union eqb ord l1 l2) <-> In a l1 \/ In a l2.
  Proof. exact (union_spec eqb eqb_spec ord ord_perm). Qed.
  Theorem C20_union_has_no_duplicates : forall l1 l2, NoDup (union eqb ord l1 l2).
  Proof. exact (union_NoDup eqb eqb_spec ord ord_perm). Qed.
  Theorem C20_unique_is_the_set_of_elements : forall l a, In a (unique eqb ord l) <-> In a l.
  Proof. exact (unique_spec eqb eqb_spec ord ord_perm). Qed.
  Theorem C20_unique_has_no_duplicates : forall l, NoDup (unique eqb ord l).
  Proof. exact (unique_NoDup eqb eqb_spec ord ord_perm). Qed.
  Theorem C20_unique_keeps_a_duplicate_free_list : forall l, NoDup l -> Permutation (unique eqb ord l) l.
  Proof. exact (unique_id_perm eqb eqb_spec ord ord_perm). Qed.
  Theorem C20_union_commutes_up_to_order : forall l1 l2, Permutation (union eqb ord l1 l2) (union eqb ord l2 l1).
  Proof. exact (union_comm_perm eqb eqb_spec ord ord_perm). Qed.
  Theorem C20_difference_is_difference : forall l1 l2 a, In a (difference eqb l1 l2) <-> In a l1 /\ ~ In a l2.
  Proof. exact (difference_spec eqb eqb_spec). Qed.
  Theorem C20_intersect_is_intersection : forall l1 l2 a, In a (intersect eqb l1 l2) <-> In a l1 /\ In a l2.
  Proof. exact (intersect_spec eqb eqb_spec). Qed.
  Theorem C20_include_is_membership : forall l a, include eqb l a = true <-> In a l.
  Proof. exact (include_spec eqb eqb_spec). Qed.
  (* what must not change: Difference keeps the order and the multiplicity of l1 (it only deletes the members of l2) *)
  Theorem C20_difference_keeps_order_and_multiplicity : forall l1 l1' l2 x,
    difference eqb [] l2 = [] /\
    difference eqb (l1 ++ l1') l2 = difference eqb l1 l2 ++ difference eqb l1' l2 /\
    (In x l2 -> difference eqb (x :: l1) l2 = difference eqb l1 l2) /\
    (~ In x l2 -> difference eqb (x :: l1) l2 = x :: difference eqb l1 l2).
  Proof. exact (difference_order_multiplicity eqb eqb_spec). Qed.
  (* ... and Intersect keeps the order and the multiplicity of l2 *)
  Theorem C20_intersect_keeps_order_and_multiplicity : forall l1 l2 l2' x,
    intersect eqb l1 [] = [] /\
    intersect eqb l1 (l2 ++ l2') = intersect eqb l1 l2 ++ intersect eqb l1 l2' /\
    (In x l1 -> intersect eqb l1 (x :: l2) = x :: intersect eqb l1 l2) /\
    (~ In x l1 -> intersect eqb l1 (x :: l2) = intersect eqb l1 l2).
  Proof. exact (intersect_order_multiplicity eqb eqb_spec). Qed.
  Theorem C20_difference_and_intersection_partition_the_list : forall l1 l2,
    Permutation (difference eqb l1 l2 ++ intersect eqb l2 l1) l1.
  Proof. exact (difference_intersect_partition eqb). Qed.
  (* the run-time checkers decide exactly these specifications *)
  Theorem C20_set_checker_sound : forall l o, is_set_of eqb l o = true <-> NoDup o /\ forall x, In x o <-> In x l.
  Proof. exact (is_set_of_spec eqb eqb_spec). Qed.
  Theorem C20_set_checker_is_model_up_to_order : forall l o, is_set_of eqb l o = true <-> Permutation o (nodupb eqb l).
  Proof. exact (is_set_of_unique eqb eqb_spec). Qed.
  Theorem C20_include_checker_sound : forall l t o, check_include eqb l t o = true <-> (o = true <-> In t l).
  Proof. exact (check_include_spec eqb eqb_spec). Qed.
  Theorem C20_difference_checker_sound : forall l1 l2 o,
    follows eqb (fun x => negb (memb eqb x l2)) l1 o = true <-> o = difference eqb l1 l2.
  Proof. exact (follows_difference eqb eqb_spec). Qed.
  Theorem C20_intersect_checker_sound : forall l1 l2 o,
    follows eqb (fun x => memb eqb x l1) l2 o = true <-> o = intersect eqb l1 l2.
  Proof. exact (follows_intersect eqb eqb_spec). Qed.
End SetHelpers.
Print Assumptions C20_union_is_union.
Print Assumptions C20_union_has_no_duplicates.
Print Assumptions C20_unique_is_the_set_of_elements.
Print Assumptions C20_unique_has_no_duplicates.
Print Assumptions C20_unique_keeps_a_duplicate_free_list.
Print Assumptions C20_union_commutes_up_to_order.
Print Assumptions C20_difference_is_difference.
Print Assumptions C20_intersect_is_intersection.
Print Assumptions C20_include_is_membership.
Print Assumptions C20_difference_keeps_order_and_multiplicity.
Print Assumptions C20_intersect_keeps_order_and_multiplicity.
Print Assumptions C20_difference_and_intersection_partition_the_list.
Print Assumptions C20_set_checker_sound.
Print Assumptions C20_set_checker_is_model_up_to_order.
Print Assumptions C20_include_checker_sound.
Print Assumptions C20_difference_checker_sound.
Print Assumptions C20_intersect_checker_sound.

(* ================= Max / Min (int64 as Z): an element bounding all others; empty input is rejected ================= *)
Open Scope Z_scope.
Theorem C20_max_is_an_element_bounding_all : forall l m, maxl l = Ok m -> In m l /\ forall x, In x l -> x <= m.
Proof. exact maxl_spec. Qed.
Print Assumptions C20_max_is_an_element_bounding_all.
Theorem C20_min_is_an_element_bounding_all : forall l m, minl l = Ok m -> In m l /\ forall x, In x l -> m <= x.
Proof. exact minl_spec. Qed.
Print Assumptions C20_min_is_an_element_bounding_all.
Theorem C20_max_rejects_exactly_the_empty_list : forall l, maxl l = Err <-> l = [].
Proof. exact maxl_err. Qed.
Print Assumptions C20_max_rejects_exactly_the_empty_list.
Theorem C20_min_rejects_exactly_the_empty_list : forall l, minl l = Err <-> l = [].
Proof. exact minl_err. Qed.
Print Assumptions C20_min_rejects_exactly_the_empty_list.
Theorem C20_max_checker_sound : forall l o, l <> [] -> (check_max l o = true <-> maxl l = Ok o).
Proof. exact check_max_model. Qed.
Print Assumptions C20_max_checker_sound.
Theorem C20_min_checker_sound : forall l o, l <> [] -> (check_min l o = true <-> minl l = Ok o).
Proof. exact check_min_model. Qed.
Print Assumptions C20_min_checker_sound.

(* ================= CalculateArithmeticShift = floor (index * 2^shift), either sign of index and shift ================= *)
Theorem C20_shift_is_floor_of_scaled_index : forall i s, ashift i s = Raux.Zfloor (IZR i * powerRZ 2 s).
Proof. exact ashift_floor_real. Qed.
Print Assumptions C20_shift_is_floor_of_scaled_index.
(* the same in integers only: a left shift multiplies; a right shift is the floor division (NOT truncation) *)
Theorem C20_shift_left_multiplies : forall i s, 0 <= s -> ashift i s = i * 2 ^ s.
Proof. exact ashift_nonneg. Qed.
Print Assumptions C20_shift_left_multiplies.
Theorem C20_shift_right_is_floor : forall i s, s < 0 -> ashift i s * 2 ^ (- s) <= i < (ashift i s + 1) * 2 ^ (- s).
Proof. exact ashift_right_floor. Qed.
Print Assumptions C20_shift_right_is_floor.
Theorem C20_shift_of_minus_one_stays_minus_one : forall s, s <= 0 -> ashift (-1) s = -1.
Proof. exact ashift_neg1. Qed.
Print Assumptions C20_shift_of_minus_one_stays_minus_one.
Theorem C20_shift_result_fits_int64_when_shifting_right : forall i s, s <= 0 -> - 2 ^ 63 <= i < 2 ^ 63 -> - 2 ^ 63 <= ashift i s < 2 ^ 63.
Proof. exact ashift_in_int64. Qed.
Print Assumptions C20_shift_result_fits_int64_when_shifting_right.
Theorem C20_shift_checker_sound : forall i s o, check_ashift i s o = true <-> o = ashift i s.
Proof. exact check_ashift_model. Qed.
Print Assumptions C20_shift_checker_sound.

(* ================= Combinations: every k-subset of 0..n-1 exactly once, in lexicographic order, for all 0 <= k <= n <= 12 ================= *)
Theorem C20_combinations_visits_every_subset_once_in_order : forall n k, 0 <= k <= n -> n <= 12 ->
  exists v, combinations n k = Some v /\ (forall s, In s v <-> is_ksubset n k s) /\ NoDup v /\ StronglySorted lex_lt v.
Proof. exact combinations_visits_12. Qed.
Print Assumptions C20_combinations_visits_every_subset_once_in_order.
(* without the bound: for EVERY 0 <= k <= n the loop of the code, given enough iterations, visits exactly the reference enumeration
   (all k-subsets, once each, lexicographically increasing — the three theorems below), and it never returns anything else *)
Theorem C20_combinations_loop_enumerates_for_every_n : forall n k fuel, 0 <= k <= n -> (length (spec n k) <= fuel)%nat ->
  run fuel n k (iota 0 (Z.to_nat k)) = Some (spec n k).
Proof. exact run_enumerates. Qed.
Print Assumptions C20_combinations_loop_enumerates_for_every_n.
Theorem C20_combinations_loop_never_visits_anything_else : forall n k fuel v, 0 <= k <= n ->
  run fuel n k (iota 0 (Z.to_nat k)) = Some v -> v = spec n k.
Proof. exact run_sound. Qed.
Print Assumptions C20_combinations_loop_never_visits_anything_else.
(* the reference enumeration used by the run-time checker has these three properties for ALL n, k, and is the only list that has them *)
Theorem C20_reference_enumeration_members : forall n k s, 0 <= n -> 0 <= k -> (In s (spec n k) <-> is_ksubset n k s).
Proof. exact spec_members. Qed.
Print Assumptions C20_reference_enumeration_members.
Theorem C20_reference_enumeration_no_duplicates : forall n k, NoDup (spec n k).
Proof. exact spec_NoDup. Qed.
Print Assumptions C20_reference_enumeration_no_duplicates.
Theorem C20_reference_enumeration_lexicographic : forall n k, StronglySorted lex_lt (spec n k).
Proof. exact spec_lex_sorted. Qed.
Print Assumptions C20_reference_enumeration_lexicographic.
Theorem C20_combinations_checker_sound : forall n k v, 0 <= n -> 0 <= k ->
  (forall s, In s v <-> is_ksubset n k s) -> StronglySorted lex_lt v -> v = spec n k.
Proof. exact visits_unique. Qed.
Print Assumptions C20_combinations_checker_sound.

(* ================= vectors, lines, matrices — OVER THE REALS (names end in _over_R); the binary64 statements follow further down ================= *)
Open Scope R_scope.
Theorem C20_line_parameter_0_and_1_give_the_end_points_over_R : forall p q,
  line_to_point (line_from_points p q) 0 = p /\ line_to_point (line_from_points p q) 1 = q /\
  line_start (line_from_points p q) = p /\ line_end (line_from_points p q) = q.
Proof. exact line_end_points. Qed.
Print Assumptions C20_line_parameter_0_and_1_give_the_end_points_over_R.
Theorem C20_line_is_the_affine_combination_over_R : forall p q t,
  line_to_point (line_from_points p q) t = vadd (vscale (1 - t) p) (vscale t q).
Proof. exact line_affine. Qed.
Print Assumptions C20_line_is_the_affine_combination_over_R.
Theorem C20_matrix_product_is_associative_over_R : forall a b c, mmul (mmul a b) c = mmul a (mmul b c).
Proof. exact mmul_assoc. Qed.
Print Assumptions C20_matrix_product_is_associative_over_R.
Theorem C20_matrix_product_agrees_with_application_over_R : forall a b v, mulvec (mmul a b) v = mulvec a (mulvec b v).
Proof. exact mulvec_mmul. Qed.
Print Assumptions C20_matrix_product_agrees_with_application_over_R.
Theorem C20_unit_matrix_is_neutral_over_R : forall a v, mmul munit a = a /\ mmul a munit = a /\ mulvec munit v = v.
Proof. exact munit_neutral. Qed.
Print Assumptions C20_unit_matrix_is_neutral_over_R.
Theorem C20_cross_product_is_perpendicular_over_R : forall a b, vdot a (vcross a b) = 0 /\ vdot b (vcross a b) = 0.
Proof. exact vcross_perp. Qed.
Print Assumptions C20_cross_product_is_perpendicular_over_R.
Theorem C20_lagrange_identity_over_R : forall a b, vdot (vcross a b) (vcross a b) = vdot a a * vdot b b - vdot a b * vdot a b.
Proof. exact lagrange. Qed.
Print Assumptions C20_lagrange_identity_over_R.
Theorem C20_norm_squared_is_dot_over_R : forall a, vnorm a * vnorm a = vdot a a /\ 0 <= vnorm a.
Proof. exact vnorm_sq_nonneg. Qed.
Print Assumptions C20_norm_squared_is_dot_over_R.
Theorem C20_unit_has_norm_one_over_R : forall a, nonzero a -> vnorm (vunit a) = 1.
Proof. exact vunit_vnorm. Qed.
Print Assumptions C20_unit_has_norm_one_over_R.
Theorem C20_translate_by_difference_reaches_the_point_over_R : forall p q, translate p (vec_from_points p q) = q.
Proof. exact translate_from_points. Qed.
Print Assumptions C20_translate_by_difference_reaches_the_point_over_R.

(* ================= rotation between two non-zero vectors — OVER THE REALS ONLY: these theorems are about the real-number model of quat.go;
   the binary64 code is tied to them only by the run-time checks, and its unit norm is off by up to ~6e-6 for 1e-10 <= 1+cos < 2^-19
   (finding quat_norm_cancellation) ================= *)
(* generic case and exactly opposite vectors: a unit quaternion carrying the first direction onto the second *)
Theorem C20_rotation_carries_first_direction_onto_second_over_R_partial : forall a b, nonzero a -> nonzero b ->
  minima <= 1 + vcos (vunit a) (vunit b) \/ opposite a b ->
  qnorm2 (rotate_between a b) = 1 /\ rot (rotate_between a b) (vunit a) = vunit b.
Proof. exact rotate_between_partial. Qed.
Print Assumptions C20_rotation_carries_first_direction_onto_second_over_R_partial.
(* "also when they are opposite": with either fallback axis of the code (unit(a) x e_z, or a x e_x when a is within 1e-10 of the z axis) *)
Theorem C20_rotation_between_opposite_vectors_over_R : forall a b, nonzero a -> opposite a b ->
  qnorm2 (rotate_between a b) = 1 /\ rot (rotate_between a b) (vunit a) = vunit b.
Proof. exact rotate_between_opposite. Qed.
Print Assumptions C20_rotation_between_opposite_vectors_over_R.
Theorem C20_fallback_axis_is_never_zero_and_perpendicular_over_R : forall a, nonzero a ->
  let ax1 := vcross (vunit a) (V 0 0 1) in
  let ax := if Rlt_dec (vnorm ax1) minima then vcross a (V 1 0 0) else ax1 in
  nonzero ax /\ vdot ax (vunit a) = 0.
Proof. exact fallback_axis. Qed.
Print Assumptions C20_fallback_axis_is_never_zero_and_perpendicular_over_R.
(* the quaternion is a unit for all non-zero arguments *)
Theorem C20_rotation_is_a_unit_quaternion_over_R : forall a b, nonzero a -> nonzero b -> qnorm2 (rotate_between a b) = 1.
Proof. exact rotate_between_unit. Qed.
Print Assumptions C20_rotation_is_a_unit_quaternion_over_R.
(* whenever 1 + cos < Minima the code performs the half turn a |-> -a, whatever b is ... *)
Theorem C20_rotation_fallback_is_a_half_turn_over_R : forall a b, nonzero a -> nonzero b -> 1 + vcos (vunit a) (vunit b) < minima ->
  rot (rotate_between a b) (vunit a) = vneg (vunit a).
Proof. exact rotate_between_fallback_half_turn. Qed.
Print Assumptions C20_rotation_fallback_is_a_half_turn_over_R.
(* ... so the law as stated fails for nearly-but-not-exactly opposite vectors (finding class quat_near_opposite) *)
Theorem C20_rotation_near_opposite_refuted_over_R :
  exists a b, nonzero a /\ nonzero b /\ rot (rotate_between a b) (vunit a) <> vunit b.
Proof. exact rotate_between_near_opposite_refuted. Qed.
Print Assumptions C20_rotation_near_opposite_refuted_over_R.

(* ================= the run-time law checkers on float outputs decide statements of exact (rational) arithmetic ================= *)
Open Scope Q_scope.
Theorem C20_dyadic_arithmetic_is_exact : forall a b,
  dval (dadd a b) == dval a + dval b /\ dval (dsub a b) == dval a - dval b /\ dval (dmul a b) == dval a * dval b /\
  dval (dabs a) == Qabs (dval a) /\ (dleb a b = true <-> dval a <= dval b) /\ (deqb a b = true <-> dval a == dval b).
Proof. exact dyadic_exact. Qed.
Print Assumptions C20_dyadic_arithmetic_is_exact.
Theorem C20_tolerance_check_meaning : forall k o e bound,
  dnear k o e bound = true <-> Qabs (dval o - dval e) <= dval bound * pow2Q k.
Proof. exact dnear_val. Qed.
Print Assumptions C20_tolerance_check_meaning.

(* dot product: equality with the rational value on small-integer inputs, otherwise within 2^-48 of the sum of |a_i b_i| *)
Theorem C20_dot_check_sound : forall ex a b o, ck_dot ex a b o = true ->
  if ex then dval o == Qdot (vq a) (vq b) else Qabs (dval o - Qdot (vq a) (vq b)) <= Qdot (vq (dv_abs a)) (vq (dv_abs b)) * pow2Q tol_exp.
Proof. exact ck_dot_sound. Qed.
Print Assumptions C20_dot_check_sound.
(* rotation: an accepted observed quaternion q = (w, u) has | |q|^2 - 1 | <= 2^-30 and r = |q|^2 (q a q^-1) (the polynomial of
   Quat.rot_formula, evaluated exactly) points along b: |r x b|^2 <= 2^-60 |r|^2 |b|^2 and r.b > 0 *)
Theorem C20_rotation_check_sound : forall q a b, check_rotation q a b = true ->
  let w := dval (dq_w q) in let u := vq (dq_v q) in let r := Qrot w u (vq a) in
  Qabs (w * w + Qdot u u - 1) <= pow2Q qtol_exp /\
  Qdot (Qcross r (vq b)) (Qcross r (vq b)) <= Qdot r r * Qdot (vq b) (vq b) * pow2Q (2 * qtol_exp) /\
  0 < Qdot r (vq b).
Proof. exact check_rotation_sound. Qed.
Print Assumptions C20_rotation_check_sound.

(* ================= binary64 = real number on integer inputs (|component| <= 2^16): no rounding anywhere ================= *)
(* `ib B x m`: the float x is finite, its value is the integer m, |m| <= B.  `ibv`, `ibm`: the same for every component. *)
Close Scope Q_scope.
Open Scope Z_scope.
Theorem C20_float_dot_and_cross_are_exact_on_integers : forall a b ma mb, ibv K a ma -> ibv K b mb ->
  ib (3 * (K * K)) (fdot a b) (zdot ma mb) /\ ibv (2 * (K * K)) (fcross a b) (zcross ma mb).
Proof. exact fdot_fcross_exact_K. Qed.
Print Assumptions C20_float_dot_and_cross_are_exact_on_integers.
Theorem C20_float_matrix_product_is_associative_on_integers : forall a b c ma mb mc, ibm K a ma -> ibm K b mb -> ibm K c mc ->
  exists B, ibm B (fmmul (fmmul a b) c) (zmmul (zmmul ma mb) mc) /\ ibm B (fmmul a (fmmul b c)) (zmmul (zmmul ma mb) mc).
Proof. exact fmmul_assoc_exact. Qed.
Print Assumptions C20_float_matrix_product_is_associative_on_integers.
Theorem C20_float_matrix_product_agrees_with_application_on_integers : forall a b v ma mb mv, ibm K a ma -> ibm K b mb -> ibv K v mv ->
  exists B, ibv B (fmulvec (fmmul a b) v) (zmulvec (zmmul ma mb) mv) /\ ibv B (fmulvec a (fmulvec b v)) (zmulvec (zmmul ma mb) mv).
Proof. exact fmulvec_fmmul_exact. Qed.
Print Assumptions C20_float_matrix_product_agrees_with_application_on_integers.
Theorem C20_float_cross_product_is_exactly_perpendicular_on_integers : forall a b ma mb, ibv K a ma -> ibv K b mb ->
  is_int (fdot a (fcross a b)) 0 /\ is_int (fdot b (fcross a b)) 0.
Proof. exact fcross_perp_exact. Qed.
Print Assumptions C20_float_cross_product_is_exactly_perpendicular_on_integers.
Theorem C20_float_line_point_is_exact_on_integers : forall p q t mp mq mt, ibv K p mp -> ibv K q mq -> ib K t mt ->
  exists B, ibv B (fline_to_point p (fvec_from_points p q) t) (zadd mp (zscale mt (zsub mq mp))).
Proof. exact fline_exact. Qed.
Print Assumptions C20_float_line_point_is_exact_on_integers.

(* ================= the smaller helpers: L1Norm, AlmostEqual / IsClose, UniqueAppend, MaxPoint / MinPoint, Max / Min at float64,
   DegreeToRadian / RadianToDegree (models and proofs: theories/PointLaws.v, OrdMax.v) ================= *)
Open Scope R_scope.
(* L1Norm = |x|+|y|+|z| is a norm, and dominates the Euclidean norm *)
Theorem C20_l1norm_is_a_norm_over_R : forall a b f,
  0 <= vl1norm a /\ vl1norm (vadd a b) <= vl1norm a + vl1norm b /\ vl1norm (vscale f a) = Rabs f * vl1norm a /\
  (vl1norm a = 0 <-> a = vzero) /\ vnorm a <= vl1norm a.
Proof. exact vl1norm_laws. Qed.
Print Assumptions C20_l1norm_is_a_norm_over_R.
Theorem C20_float_l1norm_is_exact_on_integers : forall a ma, ibv K a ma ->
  is_int (fl1norm a) (Z.abs (zx ma) + Z.abs (zy ma) + Z.abs (zz ma)).
Proof. exact fl1norm_exact. Qed.
Print Assumptions C20_float_l1norm_is_exact_on_integers.
(* AlmostEqual over R: reflexive, symmetric; for tol >= 0 it is |x - y| <= tol, for tol < 0 it is equality *)
Theorem C20_almost_equal_laws_over_R : forall x y tol,
  almost_equalR x x tol /\ (almost_equalR x y tol -> almost_equalR y x tol) /\
  (0 <= tol -> (almost_equalR x y tol <-> Rabs (x - y) <= tol)) /\ (tol < 0 -> (almost_equalR x y tol <-> x = y)).
Proof. exact almost_equalR_laws. Qed.
Print Assumptions C20_almost_equal_laws_over_R.
Theorem C20_is_close_laws_over_R : forall p q eps,
  is_closeR p p eps /\ (is_closeR p q eps -> is_closeR q p eps) /\
  (0 <= eps -> (is_closeR p q eps <-> Rabs (vx p - vx q) <= eps /\ Rabs (vy p - vy q) <= eps /\ Rabs (vz p - vz q) <= eps)).
Proof. exact is_closeR_laws. Qed.
Print Assumptions C20_is_close_laws_over_R.
(* AlmostEqual on binary64 (`fin` = finite, `rv` = real value, rounding to nearest even): what the code computes, exactly *)
Theorem C20_float_almost_equal_value : forall x y tol, fin x -> fin y -> fin tol ->
  Rabs (round radix2 (SpecFloat.fexp FloatOps.prec FloatOps.emax) ZnearestE (rv x - rv y)) < bpow radix2 FloatOps.emax ->
  (almost_equal x y tol = true <->
   rv x = rv y \/ Rabs (round radix2 (SpecFloat.fexp FloatOps.prec FloatOps.emax) ZnearestE (rv x - rv y)) <= rv tol).
Proof. exact almost_equal_value. Qed.
Print Assumptions C20_float_almost_equal_value.
Theorem C20_float_almost_equal_accepts_every_pair_within_tolerance : forall x y tol, fin x -> fin y -> fin tol ->
  Rabs (round radix2 (SpecFloat.fexp FloatOps.prec FloatOps.emax) ZnearestE (rv x - rv y)) < bpow radix2 FloatOps.emax ->
  Rabs (rv x - rv y) <= rv tol -> almost_equal x y tol = true.
Proof. exact almost_equal_complete. Qed.
Print Assumptions C20_float_almost_equal_accepts_every_pair_within_tolerance.
Theorem C20_float_almost_equal_is_reflexive : forall x tol, fin x -> almost_equal x x tol = true.
Proof. exact almost_equal_refl. Qed.
Print Assumptions C20_float_almost_equal_is_reflexive.
Theorem C20_float_almost_equal_is_symmetric : forall x y tol, fin x -> fin y -> fin tol ->
  Rabs (round radix2 (SpecFloat.fexp FloatOps.prec FloatOps.emax) ZnearestE (rv x - rv y)) < bpow radix2 FloatOps.emax ->
  almost_equal x y tol = almost_equal y x tol.
Proof. exact almost_equal_sym. Qed.
Print Assumptions C20_float_almost_equal_is_symmetric.
Theorem C20_float_is_close_is_reflexive : forall p eps, fin (fx p) -> fin (fy p) -> fin (fz p) -> fis_close p p eps = true.
Proof. exact fis_close_refl. Qed.
Print Assumptions C20_float_is_close_is_reflexive.
(* UniqueAppend, for any closeness test: appended iff no member is close; old points keep their places; no duplicate is created;
   a pairwise-separated list stays pairwise separated *)
Theorem C20_unique_append_appends_iff_no_member_is_close : forall (A : Type) (close : A -> A -> bool) l p,
  uappend close l p = l ++ [p] <-> forall x, In x l -> close x p = false.
Proof. exact @uappend_appends_iff. Qed.
Print Assumptions C20_unique_append_appends_iff_no_member_is_close.
Theorem C20_unique_append_keeps_the_list_in_front : forall (A : Type) (close : A -> A -> bool) l p,
  exists t, uappend close l p = l ++ t /\ (t = [] \/ t = [p]).
Proof. exact @uappend_keeps_prefix. Qed.
Print Assumptions C20_unique_append_keeps_the_list_in_front.
Theorem C20_unique_append_creates_no_duplicate : forall (A : Type) (close : A -> A -> bool), (forall p, close p p = true) ->
  forall l p, NoDup l -> NoDup (uappend close l p).
Proof. exact @uappend_NoDup. Qed.
Print Assumptions C20_unique_append_creates_no_duplicate.
Theorem C20_unique_append_keeps_points_separated : forall (A : Type) (close : A -> A -> bool) l p,
  separated close l -> separated close (uappend close l p).
Proof. exact @uappend_separated. Qed.
Print Assumptions C20_unique_append_keeps_points_separated.
(* MaxPoint / MinPoint over R: a member with the extreme dot product; empty list rejected; idempotent; coordinate bounds *)
Theorem C20_max_min_point_bound_all_points_over_R : forall l v m,
  (max_pointR l v = Ok m -> In m l /\ forall q, In q l -> vdot q v <= vdot m v) /\
  (min_pointR l v = Ok m -> In m l /\ forall q, In q l -> vdot m v <= vdot q v) /\
  (max_pointR l v = Err <-> l = []) /\ (min_pointR l v = Err <-> l = []).
Proof. exact max_min_pointR_laws. Qed.
Print Assumptions C20_max_min_point_bound_all_points_over_R.
Theorem C20_max_min_point_are_idempotent_over_R : forall l v m,
  (max_pointR l v = Ok m -> max_pointR (m :: l) v = Ok m) /\ (min_pointR l v = Ok m -> min_pointR (m :: l) v = Ok m) /\
  max_pointR [m] v = Ok m /\ min_pointR [m] v = Ok m.
Proof. exact max_min_pointR_idempotent. Qed.
Print Assumptions C20_max_min_point_are_idempotent_over_R.
Theorem C20_max_min_point_along_an_axis_bound_the_coordinate_over_R : forall l m,
  (max_pointR l (V 1 0 0) = Ok m -> In m l /\ forall q, In q l -> vx q <= vx m) /\
  (min_pointR l (V 1 0 0) = Ok m -> In m l /\ forall q, In q l -> vx m <= vx q).
Proof. exact max_min_pointR_axis. Qed.
Print Assumptions C20_max_min_point_along_an_axis_bound_the_coordinate_over_R.
(* the binary64 code itself (VecF.fmax_point, compared bit for bit): with finite dot products the result is a member whose computed
   dot product bounds every computed dot product *)
Theorem C20_float_max_min_point_bound_all_points : forall gt l v m, Forall (fun p => fin (fdot p v)) l -> fmax_point gt l v = Ok m ->
  In m l /\ forall q, In q l -> if gt then rv (fdot q v) <= rv (fdot m v) else rv (fdot m v) <= rv (fdot q v).
Proof. exact fmax_point_spec. Qed.
Print Assumptions C20_float_max_min_point_bound_all_points.
(* Max / Min at float64 (Number = int | int32 | int64 | float32 | float64; string is not admitted): on finite values a member bounding all;
   the int64 theorems above are on Z; NaN has no order and is excluded *)
Theorem C20_float_max_min_bound_all_elements : forall l m,
  (Forall fin l -> maxF l = Ok m -> In m l /\ forall x, In x l -> rv x <= rv m) /\
  (Forall fin l -> minF l = Ok m -> In m l /\ forall x, In x l -> rv m <= rv x) /\
  (maxF l = Err <-> l = []) /\ (minF l = Err <-> l = []).
Proof. exact maxF_minF_laws. Qed.
Print Assumptions C20_float_max_min_bound_all_elements.
(* DegreeToRadian / RadianToDegree: inverse over R; the two float64 constants are pi/180 and 180/pi to half an ulp and inverse to 2^-52;
   the code computes one correctly rounded product with them *)
Theorem C20_degree_radian_are_inverse_over_R : forall x, rad2degR (deg2radR x) = x /\ deg2radR (rad2degR x) = x /\ deg2radR 180 = PI.
Proof. exact deg_rad_inverseR. Qed.
Print Assumptions C20_degree_radian_are_inverse_over_R.
Theorem C20_degree_radian_constants :
  rv c_deg2rad = c_d2r_R /\ rv c_rad2deg = c_r2d_R /\
  Rabs (c_d2r_R - PI / 180) <= / IZR (2 ^ 60) /\ Rabs (c_r2d_R - 180 / PI) <= / IZR (2 ^ 48) /\ Rabs (c_d2r_R * c_r2d_R - 1) <= / IZR (2 ^ 52).
Proof. exact deg_rad_constants. Qed.
Print Assumptions C20_degree_radian_constants.
Theorem C20_float_degree_to_radian_value : forall d, fin d ->
  Rabs (round radix2 (SpecFloat.fexp FloatOps.prec FloatOps.emax) ZnearestE (rv d * c_d2r_R)) < bpow radix2 FloatOps.emax ->
  rv (deg2rad d) = round radix2 (SpecFloat.fexp FloatOps.prec FloatOps.emax) ZnearestE (rv d * c_d2r_R).
Proof. exact deg2rad_value. Qed.
Print Assumptions C20_float_degree_to_radian_value.
Theorem C20_float_radian_to_degree_value : forall r, fin r ->
  Rabs (round radix2 (SpecFloat.fexp FloatOps.prec FloatOps.emax) ZnearestE (rv r * c_r2d_R)) < bpow radix2 FloatOps.emax ->
  rv (rad2deg r) = round radix2 (SpecFloat.fexp FloatOps.prec FloatOps.emax) ZnearestE (rv r * c_r2d_R).
Proof. exact rad2deg_value. Qed.
Print Assumptions C20_float_radian_to_degree_value.
Close Scope R_scope.
Open Scope Z_scope.
(* outside the quantifier (k > n), for the record: the loop of Combinations(1, 2, f) never returns (f is called with [0,1], [0,2], ...) *)
Theorem C20_combinations_with_k_above_n_never_returns : forall fuel j, 1 <= j -> run fuel 1 2 [0; j] = None.
Proof. exact combinations_k_gt_n_never_returns. Qed.
Print Assumptions C20_combinations_with_k_above_n_never_returns.

(* ================= binary64, ALL finite floats: identities that need no integrality, and the error bound of the end point ================= *)
Open Scope R_scope.
(* `val x r`: x is finite with real value r; `veqR`/`meqR`: componentwise, e.g. a -0 may come back as +0 *)
Theorem C20_float_line_parameter_0_gives_the_start_point : forall p d, finv p -> finv d -> veqR (fline_to_point p d 0) p.
Proof. exact fline_to_point_0. Qed.
Print Assumptions C20_float_line_parameter_0_gives_the_start_point.
Theorem C20_float_unit_matrix_is_left_neutral : forall a, finm a -> meqR (fmmul fmunit a) a.
Proof. exact fmmul_unit_l. Qed.
Print Assumptions C20_float_unit_matrix_is_left_neutral.
Theorem C20_float_unit_matrix_is_right_neutral : forall a, finm a -> meqR (fmmul a fmunit) a.
Proof. exact fmmul_unit_r. Qed.
Print Assumptions C20_float_unit_matrix_is_right_neutral.
Theorem C20_float_unit_matrix_fixes_vectors : forall v, finv v -> veqR (fmulvec fmunit v) v.
Proof. exact fmulvec_unit. Qed.
Print Assumptions C20_float_unit_matrix_fixes_vectors.
(* parameter 1 reaches the end point up to two roundings: per coordinate |ToPoint(1) - q| <= 2^-51 (|p| + |q|), provided nothing overflows.
   The bound is relative to |p|+|q|, not to |q|. The run-time band for ToPoint(1)/End is 2^-48 (|p|+|q|). *)
Theorem C20_float_line_parameter_1_error_bound : forall p q, finv p -> finv q ->
  (Rabs (round radix2 (SpecFloat.fexp FloatOps.prec FloatOps.emax) ZnearestE (rv (fx q) - rv (fx p))) < bpow radix2 FloatOps.emax /\
   Rabs (round radix2 (SpecFloat.fexp FloatOps.prec FloatOps.emax) ZnearestE (rv (fx p) + round radix2 (SpecFloat.fexp FloatOps.prec FloatOps.emax) ZnearestE (rv (fx q) - rv (fx p)))) < bpow radix2 FloatOps.emax) ->
  (Rabs (round radix2 (SpecFloat.fexp FloatOps.prec FloatOps.emax) ZnearestE (rv (fy q) - rv (fy p))) < bpow radix2 FloatOps.emax /\
   Rabs (round radix2 (SpecFloat.fexp FloatOps.prec FloatOps.emax) ZnearestE (rv (fy p) + round radix2 (SpecFloat.fexp FloatOps.prec FloatOps.emax) ZnearestE (rv (fy q) - rv (fy p)))) < bpow radix2 FloatOps.emax) ->
  (Rabs (round radix2 (SpecFloat.fexp FloatOps.prec FloatOps.emax) ZnearestE (rv (fz q) - rv (fz p))) < bpow radix2 FloatOps.emax /\
   Rabs (round radix2 (SpecFloat.fexp FloatOps.prec FloatOps.emax) ZnearestE (rv (fz p) + round radix2 (SpecFloat.fexp FloatOps.prec FloatOps.emax) ZnearestE (rv (fz q) - rv (fz p)))) < bpow radix2 FloatOps.emax) ->
  let r := fline_to_point p (fvec_from_points p q) 1 in
  finv r /\
  Rabs (rv (fx r) - rv (fx q)) <= bpow radix2 (-51) * (Rabs (rv (fx p)) + Rabs (rv (fx q))) /\
  Rabs (rv (fy r) - rv (fy q)) <= bpow radix2 (-51) * (Rabs (rv (fy p)) + Rabs (rv (fy q))) /\
  Rabs (rv (fz r) - rv (fz q)) <= bpow radix2 (-51) * (Rabs (rv (fz p)) + Rabs (rv (fz q))).
Proof. exact fline_to_point_1. Qed.
Print Assumptions C20_float_line_parameter_1_error_bound.
(* the value of pi against which the run-time judge of DegreeToRadian / RadianToDegree compares (independent of the code's constants) *)
Theorem C20_runtime_pi_is_pi : Rabs (IZR 16312081666030376401667486162748272 / IZR (2 ^ 112) - PI) <= / IZR (2 ^ 110).
Proof. exact pi112_close. Qed.
Print Assumptions C20_runtime_pi_is_pi.
Close Scope R_scope.

(* ================= NewMatrix3 (row-major constructor), on the models ================= *)
Open Scope R_scope.
(* over R: rows are the argument triples, columns every third argument; element (i,j) through the row = through the column *)
Theorem C20_new_matrix3_is_row_major_over_R : forall a b c d e f g h i,
  mrow (new_matrix3 a b c d e f g h i) 0 = V a b c /\ mrow (new_matrix3 a b c d e f g h i) 1 = V d e f /\
  mrow (new_matrix3 a b c d e f g h i) 2 = V g h i.
Proof. exact new_matrix3_rows. Qed.
Print Assumptions C20_new_matrix3_is_row_major_over_R.
Theorem C20_new_matrix3_columns_over_R : forall a b c d e f g h i,
  mcol (new_matrix3 a b c d e f g h i) 0 = V a d g /\ mcol (new_matrix3 a b c d e f g h i) 1 = V b e h /\
  mcol (new_matrix3 a b c d e f g h i) 2 = V c f i.
Proof. exact new_matrix3_cols. Qed.
Print Assumptions C20_new_matrix3_columns_over_R.
Theorem C20_matrix_element_by_row_or_by_column_over_R : forall a i j, (i < 3)%nat -> (j < 3)%nat -> mget a i j = vget (mcol a j) i.
Proof. exact mget_row_col. Qed.
Print Assumptions C20_matrix_element_by_row_or_by_column_over_R.
(* applied to the basis vector e_k the matrix returns its k-th column *)
Theorem C20_matrix_times_basis_vector_is_the_column_over_R : forall a k, mulvec a (basis k) = mcol a k.
Proof. exact mulvec_basis. Qed.
Print Assumptions C20_matrix_times_basis_vector_is_the_column_over_R.
Theorem C20_new_matrix3_times_basis_vectors_over_R : forall a b c d e f g h i,
  mulvec (new_matrix3 a b c d e f g h i) (V 1 0 0) = V a d g /\ mulvec (new_matrix3 a b c d e f g h i) (V 0 1 0) = V b e h /\
  mulvec (new_matrix3 a b c d e f g h i) (V 0 0 1) = V c f i.
Proof. exact new_matrix3_basis. Qed.
Print Assumptions C20_new_matrix3_times_basis_vectors_over_R.
Theorem C20_product_columns_are_images_of_columns_over_R : forall a b k, mcol (mmul a b) k = mulvec a (mcol b k).
Proof. exact mcol_mmul. Qed.
Print Assumptions C20_product_columns_are_images_of_columns_over_R.
Theorem C20_product_element_is_row_times_column_over_R : forall a b i j, (i < 3)%nat -> (j < 3)%nat ->
  mget (mmul a b) i j = vdot (mrow a i) (mcol b j).
Proof. exact mget_mmul. Qed.
Print Assumptions C20_product_element_is_row_times_column_over_R.
(* what must not change: swapping two unequal arguments (here: transposing) gives a different matrix *)
Theorem C20_new_matrix3_argument_order_matters_over_R : forall a b c d e f g h i, b <> d ->
  new_matrix3 a b c d e f g h i <> new_matrix3 a d g b e h c f i.
Proof. exact new_matrix3_transposed_differs. Qed.
Print Assumptions C20_new_matrix3_argument_order_matters_over_R.
(* binary64: reading the columns back is bit-exact by construction (any entries) ... *)
Theorem C20_float_new_matrix3_columns : forall a b c d e f g h i,
  fmcol (fnew_matrix3 a b c d e f g h i) 0 = FV a d g /\ fmcol (fnew_matrix3 a b c d e f g h i) 1 = FV b e h /\
  fmcol (fnew_matrix3 a b c d e f g h i) 2 = FV c f i.
Proof. exact fnew_matrix3_cols. Qed.
Print Assumptions C20_float_new_matrix3_columns.
(* ... and MulVec of a basis vector returns the column for ALL FINITE entries, as real values. Guard: with an infinite or NaN entry
   0 * Inf = NaN spoils the sum; a -0 entry may come back as +0 (so: values, not bit patterns). *)
Theorem C20_float_matrix_times_basis_vector_is_the_column : forall a k, (k < 3)%nat -> finm a -> veqR (fmulvec a (fbasis k)) (fmcol a k).
Proof. exact fmulvec_basis. Qed.
Print Assumptions C20_float_matrix_times_basis_vector_is_the_column.
Theorem C20_float_new_matrix3_times_basis_vectors : forall a b c d e f g h i, finm (fnew_matrix3 a b c d e f g h i) ->
  veqR (fmulvec (fnew_matrix3 a b c d e f g h i) (FV 1 0 0)) (FV a d g) /\
  veqR (fmulvec (fnew_matrix3 a b c d e f g h i) (FV 0 1 0)) (FV b e h) /\
  veqR (fmulvec (fnew_matrix3 a b c d e f g h i) (FV 0 0 1)) (FV c f i).
Proof. exact fnew_matrix3_basis. Qed.
Print Assumptions C20_float_new_matrix3_times_basis_vectors.

(* ================= the threshold consts.Minima is the one regenerated from the Go source ================= *)
(* Quat.minima (the real threshold of the fallback test `cos+1 < Minima` and of the second-axis test, used by every C20_rotation_* theorem)
   is the generated decimal constant, and VecF.c_minima (the binary64 threshold of the executable model) is the float nearest to it:
   editing consts.Minima in the Go source breaks this theorem (through GenEqConstMinima.gen_Minima_eq). *)
Theorem C20_generated_Minima_is_the_model_threshold :
  minima = dec2R Generated.Minima /\ fin c_minima /\ Rabs (rv c_minima - minima) <= / IZR (2 ^ 87).
Proof. exact minima_generated_both. Qed.
Print Assumptions C20_generated_Minima_is_the_model_threshold.
Close Scope R_scope.

(* ================= the float64 helpers as REGENERATED from the Go source (generated/GeneratedFS.v, struct values as tuples; vt / mt read a
   tuple as the model's record; math.Hypot/Sin/Cos are fields of GeneratedF.libm). The main binary64 results above, restated over the
   generated definitions through the GenEqFS* lemmas gen_*_eq: an edit of one of these Go functions changes GeneratedFS.v and breaks the theorem.
   Not regenerated (slices of pointers / range loops), hence tied by the differential run only: UniqueAppend, MaxPoint, MinPoint. ================= *)
Open Scope R_scope.
Theorem C20_generated_line_start_is_the_start_point : forall p q, GeneratedFS.Line3_Start (GeneratedFS.NewLineFromPoints p q) = p.
Proof. exact gen_line_start. Qed.
Print Assumptions C20_generated_line_start_is_the_start_point.
Theorem C20_generated_line_parameter_0_gives_the_start_point : forall p d, finv (vt p) -> finv (vt d) ->
  veqR (vt (GeneratedFS.Line3_ToPoint (p, d) 0%float)) (vt p).
Proof. exact gen_line_to_point_0. Qed.
Print Assumptions C20_generated_line_parameter_0_gives_the_start_point.
Theorem C20_generated_line_parameter_1_error_bound : forall p q, finv (vt p) -> finv (vt q) ->
  (Rabs (round radix2 (SpecFloat.fexp FloatOps.prec FloatOps.emax) ZnearestE (rv (fx (vt q)) - rv (fx (vt p)))) < bpow radix2 FloatOps.emax /\
   Rabs (round radix2 (SpecFloat.fexp FloatOps.prec FloatOps.emax) ZnearestE (rv (fx (vt p)) + round radix2 (SpecFloat.fexp FloatOps.prec FloatOps.emax) ZnearestE (rv (fx (vt q)) - rv (fx (vt p))))) < bpow radix2 FloatOps.emax) ->
  (Rabs (round radix2 (SpecFloat.fexp FloatOps.prec FloatOps.emax) ZnearestE (rv (fy (vt q)) - rv (fy (vt p)))) < bpow radix2 FloatOps.emax /\
   Rabs (round radix2 (SpecFloat.fexp FloatOps.prec FloatOps.emax) ZnearestE (rv (fy (vt p)) + round radix2 (SpecFloat.fexp FloatOps.prec FloatOps.emax) ZnearestE (rv (fy (vt q)) - rv (fy (vt p))))) < bpow radix2 FloatOps.emax) ->
  (Rabs (round radix2 (SpecFloat.fexp FloatOps.prec FloatOps.emax) ZnearestE (rv (fz (vt q)) - rv (fz (vt p)))) < bpow radix2 FloatOps.emax /\
   Rabs (round radix2 (SpecFloat.fexp FloatOps.prec FloatOps.emax) ZnearestE (rv (fz (vt p)) + round radix2 (SpecFloat.fexp FloatOps.prec FloatOps.emax) ZnearestE (rv (fz (vt q)) - rv (fz (vt p))))) < bpow radix2 FloatOps.emax) ->
  let r := vt (GeneratedFS.Line3_ToPoint (GeneratedFS.NewLineFromPoints p q) 1%float) in
  finv r /\
  Rabs (rv (fx r) - rv (fx (vt q))) <= bpow radix2 (-51) * (Rabs (rv (fx (vt p))) + Rabs (rv (fx (vt q)))) /\
  Rabs (rv (fy r) - rv (fy (vt q))) <= bpow radix2 (-51) * (Rabs (rv (fy (vt p))) + Rabs (rv (fy (vt q)))) /\
  Rabs (rv (fz r) - rv (fz (vt q))) <= bpow radix2 (-51) * (Rabs (rv (fz (vt p))) + Rabs (rv (fz (vt q)))).
Proof. exact gen_line_to_point_1. Qed.
Print Assumptions C20_generated_line_parameter_1_error_bound.
Theorem C20_generated_line_point_is_exact_on_integers : forall p q t mp mq mt', ibv K (vt p) mp -> ibv K (vt q) mq -> ib K t mt' ->
  exists B, ibv B (vt (GeneratedFS.Line3_ToPoint (GeneratedFS.NewLineFromPoints p q) t)) (zadd mp (zscale mt' (zsub mq mp))).
Proof. exact gen_line_exact_on_integers. Qed.
Print Assumptions C20_generated_line_point_is_exact_on_integers.
Theorem C20_generated_unit_matrix_is_neutral : forall a, finm (mt a) ->
  meqR (mt (GeneratedFS.Matrix3_Mul GeneratedFS.NewUnitMatrix3 a)) (mt a) /\ meqR (mt (GeneratedFS.Matrix3_Mul a GeneratedFS.NewUnitMatrix3)) (mt a).
Proof. exact gen_unit_matrix_neutral. Qed.
Print Assumptions C20_generated_unit_matrix_is_neutral.
Theorem C20_generated_unit_matrix_fixes_vectors : forall v, finv (vt v) ->
  veqR (vt (GeneratedFS.Matrix3_MulVec GeneratedFS.NewUnitMatrix3 v)) (vt v).
Proof. exact gen_unit_matrix_fixes_vectors. Qed.
Print Assumptions C20_generated_unit_matrix_fixes_vectors.
Theorem C20_generated_new_matrix3_is_row_major_and_maps_basis_to_columns : forall a b c d e f g h i, finm (FM a b c d e f g h i) ->
  GeneratedFS.NewMatrix3 a b c d e f g h i = ((a, b, c), (d, e, f), (g, h, i)) /\
  veqR (vt (GeneratedFS.Matrix3_MulVec (GeneratedFS.NewMatrix3 a b c d e f g h i) (1, 0, 0)%float)) (FV a d g) /\
  veqR (vt (GeneratedFS.Matrix3_MulVec (GeneratedFS.NewMatrix3 a b c d e f g h i) (0, 1, 0)%float)) (FV b e h) /\
  veqR (vt (GeneratedFS.Matrix3_MulVec (GeneratedFS.NewMatrix3 a b c d e f g h i) (0, 0, 1)%float)) (FV c f i).
Proof. exact gen_new_matrix3_basis. Qed.
Print Assumptions C20_generated_new_matrix3_is_row_major_and_maps_basis_to_columns.
Theorem C20_generated_matrix_product_is_associative_on_integers : forall a b c ma mb mc, ibm K (mt a) ma -> ibm K (mt b) mb -> ibm K (mt c) mc ->
  exists B, ibm B (mt (GeneratedFS.Matrix3_Mul (GeneratedFS.Matrix3_Mul a b) c)) (zmmul (zmmul ma mb) mc) /\
            ibm B (mt (GeneratedFS.Matrix3_Mul a (GeneratedFS.Matrix3_Mul b c))) (zmmul (zmmul ma mb) mc).
Proof. exact gen_matrix_product_associative_on_integers. Qed.
Print Assumptions C20_generated_matrix_product_is_associative_on_integers.
Theorem C20_generated_matrix_product_agrees_with_application_on_integers : forall a b v ma mb mv,
  ibm K (mt a) ma -> ibm K (mt b) mb -> ibv K (vt v) mv ->
  exists B, ibv B (vt (GeneratedFS.Matrix3_MulVec (GeneratedFS.Matrix3_Mul a b) v)) (zmulvec (zmmul ma mb) mv) /\
            ibv B (vt (GeneratedFS.Matrix3_MulVec a (GeneratedFS.Matrix3_MulVec b v))) (zmulvec (zmmul ma mb) mv).
Proof. exact gen_matrix_product_agrees_with_application_on_integers. Qed.
Print Assumptions C20_generated_matrix_product_agrees_with_application_on_integers.
Theorem C20_generated_dot_and_cross_are_exact_and_perpendicular_on_integers : forall a b ma mb, ibv K (vt a) ma -> ibv K (vt b) mb ->
  ib (3 * (K * K)) (GeneratedFS.Vector3_Dot a b) (zdot ma mb) /\ ibv (2 * (K * K)) (vt (GeneratedFS.Vector3_Cross a b)) (zcross ma mb) /\
  is_int (GeneratedFS.Vector3_Dot a (GeneratedFS.Vector3_Cross a b)) 0 /\ is_int (GeneratedFS.Vector3_Dot b (GeneratedFS.Vector3_Cross a b)) 0.
Proof. exact gen_dot_cross_exact_on_integers. Qed.
Print Assumptions C20_generated_dot_and_cross_are_exact_and_perpendicular_on_integers.
Theorem C20_generated_l1norm_is_exact_on_integers : forall a ma, ibv K (vt a) ma ->
  is_int (GeneratedFS.Vector3_L1Norm a) (Z.abs (zx ma) + Z.abs (zy ma) + Z.abs (zz ma)).
Proof. exact gen_l1norm_exact_on_integers. Qed.
Print Assumptions C20_generated_l1norm_is_exact_on_integers.
Theorem C20_generated_almost_equal_value : forall x y tol, fin x -> fin y -> fin tol ->
  Rabs (round radix2 (SpecFloat.fexp FloatOps.prec FloatOps.emax) ZnearestE (rv x - rv y)) < bpow radix2 FloatOps.emax ->
  (GeneratedFS.AlmostEqual x y tol = true <->
   rv x = rv y \/ Rabs (round radix2 (SpecFloat.fexp FloatOps.prec FloatOps.emax) ZnearestE (rv x - rv y)) <= rv tol).
Proof. exact gen_almost_equal_value. Qed.
Print Assumptions C20_generated_almost_equal_value.
Theorem C20_generated_almost_equal_accepts_every_pair_within_tolerance : forall x y tol, fin x -> fin y -> fin tol ->
  Rabs (round radix2 (SpecFloat.fexp FloatOps.prec FloatOps.emax) ZnearestE (rv x - rv y)) < bpow radix2 FloatOps.emax ->
  Rabs (rv x - rv y) <= rv tol -> GeneratedFS.AlmostEqual x y tol = true.
Proof. exact gen_almost_equal_complete. Qed.
Print Assumptions C20_generated_almost_equal_accepts_every_pair_within_tolerance.
Theorem C20_generated_almost_equal_is_reflexive_and_symmetric : forall x y tol, fin x -> fin y -> fin tol ->
  Rabs (round radix2 (SpecFloat.fexp FloatOps.prec FloatOps.emax) ZnearestE (rv x - rv y)) < bpow radix2 FloatOps.emax ->
  GeneratedFS.AlmostEqual x x tol = true /\ GeneratedFS.AlmostEqual x y tol = GeneratedFS.AlmostEqual y x tol.
Proof. exact gen_almost_equal_refl_sym. Qed.
Print Assumptions C20_generated_almost_equal_is_reflexive_and_symmetric.
Theorem C20_generated_is_close_is_reflexive : forall p eps, finv (vt p) -> GeneratedFS.Point3_IsClose p p eps = true.
Proof. exact gen_is_close_refl. Qed.
Print Assumptions C20_generated_is_close_is_reflexive.
(* RotateBetweenVector as regenerated: it is the model (branching on the regenerated threshold), for every math library M ... *)
Theorem C20_generated_rotation_is_the_model : forall M a b,
  GeneratedFS.RotateBetweenVector M a b =
  tq (frotate_between (GeneratedF.m_hypot M) (GeneratedF.m_sin M) (GeneratedF.m_cos M) (vt a) (vt b)).
Proof. exact gen_rotate_branches. Qed.
Print Assumptions C20_generated_rotation_is_the_model.
(* ... and, evaluated (vm_compute) with the concrete library GenC20.libm0 (naive Hypot; Sin/Cos = Go's values at pi/2), the run-time judges of
   DC20.d_rotate give on its own output (law holds, fallback branch taken, half turn a -> -a verified, direction + loose norm verified,
   exactly opposite, unit norm):  the two recorded defects ... *)
Theorem C20_generated_rotation_half_turn_witness :
  rot_verdicts libm0 (1, 0, 0)%float (-1, 0x1.0c6f7a0b5ed8dp-20, 0)%float = Some (false, true, true, false, false, true).
Proof. exact gen_rotate_half_turn_witness. Qed.
Print Assumptions C20_generated_rotation_half_turn_witness.
Theorem C20_generated_rotation_cancellation_witness :
  rot_verdicts libm0 (1, 0, 0)%float (-1, 0x1.f75104d551d69p-16, 0)%float = Some (false, false, false, true, false, false).
Proof. exact gen_rotate_cancellation_witness. Qed.
Print Assumptions C20_generated_rotation_cancellation_witness.
(* ... and the law on exactly opposite vectors along -z/+z (second fallback axis) and on a generic pair *)
Theorem C20_generated_rotation_opposite_and_generic_pairs_obey_the_law :
  rot_verdicts libm0 (0, 0, -2)%float (0, 0, 3)%float = Some (true, true, true, true, true, true) /\
  rot_verdicts libm0 (1, 2, 2)%float (2, -1, 2)%float = Some (true, false, false, true, false, true).
Proof. exact gen_rotate_opposite_and_generic_ok. Qed.
Print Assumptions C20_generated_rotation_opposite_and_generic_pairs_obey_the_law.
Close Scope R_scope.

(* ================= CalculateArithmeticShift on 64-bit integers: the kernel regenerated in the translator's int64 mode (Generated64.v: wrapped
   value + flag "nothing wrapped") returns floor(index * 2^shift) with the flag true on the property's own domain ================= *)
Open Scope Z_scope.
Theorem C20_generated_int64_shift_is_floor_when_it_fits : forall i s, - 63 < s < 63 -> - 2 ^ 63 <= i * 2 ^ Z.max 0 s < 2 ^ 63 ->
  Generated64.CalculateArithmeticShift i s = Some (ashift i s, true) /\ is_floor_shift i s (ashift i s).
Proof. exact gen64_shift_both. Qed.
Print Assumptions C20_generated_int64_shift_is_floor_when_it_fits.
Theorem C20_generated_int64_shift_right_is_floor_unconditionally : forall i s, - 63 < s <= 0 -> - 2 ^ 63 <= i < 2 ^ 63 ->
  Generated64.CalculateArithmeticShift i s = Some (ashift i s, true) /\ ashift i s * 2 ^ (- s) <= i < (ashift i s + 1) * 2 ^ (- s).
Proof. exact gen64_shift_right_is_floor. Qed.
Print Assumptions C20_generated_int64_shift_right_is_floor_unconditionally.
(* three more helpers regenerated from the source, exact on integers *)
Theorem C20_generated_vector_sub_is_exact_on_integers : forall a b ma mb, ibv K (vt a) ma -> ibv K (vt b) mb ->
  ibv (K + K) (vt (GeneratedFS.Vector3_Sub a b)) (zsub ma mb).
Proof. exact gen_sub_exact_on_integers. Qed.
Print Assumptions C20_generated_vector_sub_is_exact_on_integers.
Theorem C20_generated_point_translate_is_exact_on_integers : forall p a mp ma, ibv K (vt p) mp -> ibv K (vt a) ma ->
  ibv (K + K) (vt (GeneratedFS.Point3_Translate p a)) (zadd mp ma).
Proof. exact gen_translate_exact_on_integers. Qed.
Print Assumptions C20_generated_point_translate_is_exact_on_integers.
Theorem C20_generated_line_end_is_exact_on_integers : forall p d mp md, ibv K (vt p) mp -> ibv K (vt d) md ->
  ibv (K + K) (vt (GeneratedFS.Line3_End (p, d))) (zadd mp md).
Proof. exact gen_line_end_exact_on_integers. Qed.
Print Assumptions C20_generated_line_end_is_exact_on_integers.

(* ================= non-vacuity ================= *)
Close Scope Q_scope.
Close Scope R_scope.
Open Scope Z_scope.
Example C20_nonvacuous_sets :
  union Z.eqb (fun l => l) [3; 1; 3] [2; 1] = [3; 2; 1] /\ difference Z.eqb [3; 1; 3; 2] [1] = [3; 3; 2] /\
  intersect Z.eqb [1; 2] [2; 2; 5; 1] = [2; 2; 1] /\ maxl [2; -7; 9; 9] = Ok 9 /\ minl [] = Err.
Proof. repeat split; reflexivity. Qed.
Example C20_nonvacuous_shift : ashift (-5) (-1) = -3 /\ ashift (-5) 2 = -20 /\ ashift (-1) (-62) = -1 /\ Z.quot (-5) 2 = -2.
Proof. repeat split; reflexivity. Qed.
Example C20_nonvacuous_combinations : combinations 4 2 = Some [[0; 1]; [0; 2]; [0; 3]; [1; 2]; [1; 3]; [2; 3]] /\ combinations 3 0 = Some [[]].
Proof. split; vm_compute; reflexivity. Qed.
Example C20_nonvacuous_rotation : nonzero (V 0 0 1) /\ opposite (V 0 0 1) (V 0 0 (-2)) /\ nonzero (V 1 0 0) /\ opposite (V 1 0 0) (V (-3) 0 0).
Proof.
  repeat split.
  - intros E. apply (f_equal vz) in E. cbn in E. Lra.lra.
  - exists 2%R. split; [Lra.lra|]. apply vec_eq; cbn; Lra.lra.
  - intros E. apply (f_equal vx) in E. cbn in E. Lra.lra.
  - exists 3%R. split; [Lra.lra|]. apply vec_eq; cbn; Lra.lra.
Qed.

(* ---- tie to the source by regeneration (DESIGN.md 4.2): common.CalculateArithmeticShift translated from /repo's current source is Base.ashift ---- *)
From SIDGen Require Generated.
From SID Require GenTac.
Theorem C20_generated_arithmetic_shift_is_the_model : forall i s, Generated.CalculateArithmeticShift i s = Base.ashift i s.
Proof. exact GenTac.gen_CalculateArithmeticShift_eq. Qed.
Print Assumptions C20_generated_arithmetic_shift_is_the_model.
Example C20_nonvacuous_generic_rotation : nonzero (V 1 0 0) /\ nonzero (V 0 1 0) /\ (minima <= 1 + vcos (vunit (V 1 0 0)) (vunit (V 0 1 0)))%R.
Proof. exact generic_case_inhabited. Qed.
Example C20_nonvacuous_integer_floats : ib K 3%float 3 /\ ib K (-7)%float (-7).
Proof. exact three_is_int. Qed.
Example C20_nonvacuous_new_matrix3 :
  (mulvec (new_matrix3 1 2 3 4 5 6 7 8 9) (V 0 1 0) = V 2 5 8 /\ mget (new_matrix3 1 2 3 4 5 6 7 8 9) 1 2 = 6 /\
   new_matrix3 1 2 3 4 5 6 7 8 9 <> new_matrix3 1 4 7 2 5 8 3 6 9)%R.
Proof. exact new_matrix3_example. Qed.
Example C20_nonvacuous_generated_hypotheses :
  finm (FM 1 2 3 4 5 6 7 8 9) /\ finv (vt (1, 2, 3)%float) /\ ibv K (vt (3, -7, 3)%float) (ZV 3 (-7) 3).
Proof. exact gen_hypotheses_inhabited. Qed.
Example C20_generated_int64_shift_evaluated :
  Generated64.CalculateArithmeticShift (-5) (-1) = Some (-3, true) /\ Generated64.CalculateArithmeticShift (-1) (-62) = Some (-1, true) /\
  Generated64.CalculateArithmeticShift 1 62 = Some (2 ^ 62, true) /\ Generated64.CalculateArithmeticShift (2 ^ 62) 1 = Some (- 2 ^ 63, false) /\
  Generated64.CalculateArithmeticShift 3 62 = Some (- 2 ^ 62, false).
Proof. exact gen64_shift_examples. Qed.

(* ---- DegreeToRadian / RadianToDegree as REGENERATED from common/util.go on every run (generated/GeneratedF.v): the code is the model
   (one product with the float64 constant the Go compiler folds math.Pi/180, 180/math.Pi into), hence one correctly rounded product
   with c_d2r_R / c_r2d_R (C20_degree_radian_constants: pi/180 and 180/pi to 2^-60 / 2^-48) ---- *)
Open Scope R_scope.
Theorem C20_generated_degree_to_radian_is_the_model : forall d, GeneratedF.DegreeToRadian d = deg2rad d.
Proof. exact gen_DegreeToRadian_is_deg2rad. Qed.
Print Assumptions C20_generated_degree_to_radian_is_the_model.
Theorem C20_generated_radian_to_degree_is_the_model : forall r, GeneratedF.RadianToDegree r = rad2deg r.
Proof. exact gen_RadianToDegree_is_rad2deg. Qed.
Print Assumptions C20_generated_radian_to_degree_is_the_model.
Theorem C20_generated_degree_to_radian_value : forall d, fin d ->
  Rabs (round radix2 (SpecFloat.fexp FloatOps.prec FloatOps.emax) ZnearestE (rv d * c_d2r_R)) < bpow radix2 FloatOps.emax ->
  rv (GeneratedF.DegreeToRadian d) = round radix2 (SpecFloat.fexp FloatOps.prec FloatOps.emax) ZnearestE (rv d * c_d2r_R).
Proof. exact gen_degree_to_radian_value. Qed.
Print Assumptions C20_generated_degree_to_radian_value.
Theorem C20_generated_radian_to_degree_value : forall r, fin r ->
  Rabs (round radix2 (SpecFloat.fexp FloatOps.prec FloatOps.emax) ZnearestE (rv r * c_r2d_R)) < bpow radix2 FloatOps.emax ->
  rv (GeneratedF.RadianToDegree r) = round radix2 (SpecFloat.fexp FloatOps.prec FloatOps.emax) ZnearestE (rv r * c_r2d_R).
Proof. exact gen_radian_to_degree_value. Qed.
Print Assumptions C20_generated_radian_to_degree_value.
Close Scope R_scope.
Example C20_generated_degree_radian_evaluated :
  GeneratedF.DegreeToRadian 180%float = 0x1.921fb54442d18p+1%float /\ GeneratedF.RadianToDegree 0x1.921fb54442d18p+1%float = 180%float /\
  GeneratedF.DegreeToRadian 0%float = 0%float.
Proof. exact gen_degree_radian_evaluated. Qed.
