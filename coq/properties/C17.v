(* C17 — Binary-subdivision altitude IDs cover the voxel and stay inside the height range.
   ALL THEOREMS HERE ARE ABOUT THE MODEL (theories/BitAlt.v), a Gallina transcription of the Go code that every run compares with the code.
   Only statements, `exact` proofs and Print Assumptions live here. Models: theories/BitAlt.v (bit-exact binary64 model of calcBitIndex,
   convertVerticallIDToBit, convertBitToVerticalID and the exported conversions), BitAltRef.v (exact integer reference + run-time checkers),
   BitAltR.v (the same loop over the reals), BitAltF.v / BitAltV.v / BitAltT.v (Flocq side).
   Vocabulary: geF a b = Go's `a >= b` on float64; val x = the real value of a finite float (fin x); calc_bit_index = calcBitIndex;
   vid_to_bit = convertVerticallIDToBit; bit_to_vid = convertBitToVerticalID; vox_alt f v = float64(f)*2^25/2^v. *)
From Coq Require Import ZArith Reals Lia Floats List Bool String.
From Flocq Require Import Core.
From SIDGen Require Import GeneratedF.
From SID Require Import Base Str Ids Wire F64 ExactRef PointF BitAlt BitAltRef BitAltR BitAltF BitAltV BitAltT DC17 GenC17.
Import ListNotations.
Open Scope Z_scope.

(* ---------- 1. inside 0 .. 2^zoom-1, always (clamping): every float64 altitude and bound, NaN and infinities included ---------- *)
Theorem C17_index_always_in_range : forall (alt : pfloat) zoom (mx mn : pfloat), 0 <= zoom -> 0 <= calc_bit_index alt zoom mx mn < 2 ^ zoom.
Proof. exact calc_bit_index_range. Qed.
Print Assumptions C17_index_always_in_range.

Theorem C17_every_emitted_index_in_range : forall v f oz (mx mn : pfloat) x, 0 <= oz -> In x (vid_to_bit v f oz mx mn) -> 0 <= x < 2 ^ oz.
Proof. exact vid_to_bit_range. Qed.
Print Assumptions C17_every_emitted_index_in_range.

(* ---------- 2. monotone in the altitude (Go's >= is transitive on all of float64), whatever the height range ---------- *)
Theorem C17_comparison_transitive : forall a b c : pfloat, geF a b = true -> geF b c = true -> geF a c = true.
Proof. exact geF_trans. Qed.
Print Assumptions C17_comparison_transitive.

Theorem C17_index_monotone : forall (a1 a2 : pfloat) zoom (mx mn : pfloat), geF a2 a1 = true ->
  calc_bit_index a1 zoom mx mn <= calc_bit_index a2 zoom mx mn.
Proof. exact calc_bit_index_mono. Qed.
Print Assumptions C17_index_monotone.

(* ---------- 3. forward direction: the emitted list is the contiguous run from the cell of the bottom altitude to the cell of the top altitude.
   For every vertical zoom 0..35, every index (both signs, far beyond the valid ones), every output zoom, EVERY height range: the two faces of
   the voxel are computed without rounding, the list has no duplicates and is, as a set, exactly lo..hi, inside 0..2^zoom-1. ---------- *)
Theorem C17_voxel_faces_exact : forall f v, 0 <= v <= 35 -> Z.abs f < 2 ^ 53 ->
  val (vox_alt f v) = (IZR f * bpow radix2 (25 - v))%R /\ fin (vox_alt f v).
Proof. exact vox_alt_exact. Qed.
Print Assumptions C17_voxel_faces_exact.

Theorem C17_forward_is_contiguous_run : forall v f oz (mx mn : pfloat), 0 <= v <= 35 -> Z.abs f < 2 ^ 52 -> 0 <= oz ->
  let lo := calc_bit_index (vox_alt f v) oz mx mn in
  let hi := calc_bit_index (vox_alt (f + 1) v) oz mx mn in
  0 <= lo <= hi /\ hi < 2 ^ oz /\ NoDup (vid_to_bit v f oz mx mn) /\ forall x, In x (vid_to_bit v f oz mx mn) <-> lo <= x <= hi.
Proof. exact vid_to_bit_run. Qed.
Print Assumptions C17_forward_is_contiguous_run.

(* coverage IN THE CODE'S OWN CELLS only: every float64 altitude between the two faces of the voxel is given, by calcBitIndex itself, a cell of
   the run. This follows from monotonicity alone and says nothing about where those cells lie in space: geometric coverage is item 4/5 (exact
   twin, dyadic ranges) and is refuted in general (item 5, finding bit_rounding). *)
Theorem C17_forward_covers_voxel_in_own_cells : forall v f oz (mx mn a : pfloat), 0 <= v <= 35 -> Z.abs f < 2 ^ 52 -> 0 <= oz ->
  geF a (vox_alt f v) = true -> geF (vox_alt (f + 1) v) a = true -> In (calc_bit_index a oz mx mn) (vid_to_bit v f oz mx mn).
Proof. exact vid_to_bit_covers. Qed.
Print Assumptions C17_forward_covers_voxel_in_own_cells.

(* ---------- 4. the exact-arithmetic twin (the same loop over the reals): the index is the clamped floor of the normalised altitude;
   altitudes outside the range are clamped to the first / last cell; the run covers the voxel ---------- *)
Theorem C17_exact_twin_is_clamped_floor : forall alt n mx mn, 0 <= n -> (mn < mx)%R ->
  calcR alt n mx mn = clampZ 0 (2 ^ n - 1) (Zfloor ((alt - mn) / (mx - mn) * IZR (2 ^ n))).
Proof. exact calcR_exact. Qed.
Print Assumptions C17_exact_twin_is_clamped_floor.

Theorem C17_exact_run_covers_voxel : forall lo hi a n mx mn, 0 <= n -> (mn < mx)%R -> (lo <= a <= hi)%R ->
  calcR lo n mx mn <= calcR a n mx mn <= calcR hi n mx mn /\
  0 <= calcR a n mx mn < 2 ^ n /\
  ((mn <= a < mx)%R -> in_cell (calcR a n mx mn) n mx mn a) /\
  ((a < mn)%R -> calcR a n mx mn = 0) /\ ((mx <= a)%R -> calcR a n mx mn = 2 ^ n - 1).
Proof. exact run_covers. Qed.
Print Assumptions C17_exact_run_covers_voxel.

(* the integer reference evaluated by the run-time checker on the floats' dyadic values IS that twin *)
Theorem C17_reference_is_exact_twin : forall a mn mx n, 0 <= n -> (dval mn < dval mx)%R ->
  idx_ref a mn mx n = calcR (dval a) n (dval mx) (dval mn).
Proof. exact idx_ref_is_calcR. Qed.
Print Assumptions C17_reference_is_exact_twin.
Theorem C17_dyadic_pair_is_value : forall x d, dyadic x = Some d -> val x = dval d /\ fin x.
Proof. exact dyadic_val. Qed.
Print Assumptions C17_dyadic_pair_is_value.
Theorem C17_reference_run_covers_voxel : forall v f oz (dmn dmx : dy) (r : R), 0 <= oz -> (dval dmn < dval dmx)%R ->
  (dval (vox_dy f v) <= r <= dval (vox_dy (f + 1) v))%R -> (dval dmn <= r < dval dmx)%R ->
  let '(lo, hi) := fwd_ref v f oz dmn dmx in exists i, lo <= i <= hi /\ in_cell i oz (dval dmx) (dval dmn) r.
Proof. exact fwd_ref_covers. Qed.
Print Assumptions C17_reference_run_covers_voxel.

(* ---------- 5. float model = exact twin whenever the borders are representable: bounds a 2^e < b 2^e with |a| 2^zoom, |b| 2^zoom < 2^51
   (all ranges +-2^k, [0,500], [-256,768], integer bounds below 2^16 at every zoom up to 35, ...), every finite altitude ---------- *)
Theorem C17_float_equals_exact_on_dyadic_ranges : forall (alt mx mn : pfloat) (a b e zoom : Z),
  fin alt -> fin mx -> fin mn -> val mn = (IZR a * bpow radix2 e)%R -> val mx = (IZR b * bpow radix2 e)%R -> a < b ->
  0 <= zoom -> Z.abs a * 2 ^ zoom < 2 ^ 51 -> Z.abs b * 2 ^ zoom < 2 ^ 51 -> -1074 <= e - zoom -> e + 54 <= 1024 ->
  calc_bit_index alt zoom mx mn = clampZ 0 (2 ^ zoom - 1) (Zfloor ((val alt - val mn) / (val mx - val mn) * IZR (2 ^ zoom))).
Proof. exact calc_bit_index_dyadic_exact. Qed.
Print Assumptions C17_float_equals_exact_on_dyadic_ranges.

Theorem C17_forward_equals_reference_on_dyadic_ranges : forall v f oz (mx mn : pfloat) (a b e : Z),
  0 <= v <= 35 -> Z.abs f < 2 ^ 52 -> 0 <= oz ->
  fin mx -> fin mn -> val mn = (IZR a * bpow radix2 e)%R -> val mx = (IZR b * bpow radix2 e)%R -> a < b ->
  Z.abs a * 2 ^ oz < 2 ^ 51 -> Z.abs b * 2 ^ oz < 2 ^ 51 -> -1074 <= e - oz -> e + 54 <= 1024 ->
  let '(lo, hi) := fwd_ref v f oz (a, e) (b, e) in
  NoDup (vid_to_bit v f oz mx mn) /\ forall x, In x (vid_to_bit v f oz mx mn) <-> lo <= x <= hi.
Proof. exact vid_to_bit_dyadic_exact. Qed.
Print Assumptions C17_forward_equals_reference_on_dyadic_ranges.

(* On other ranges the float borders carry rounding errors and the float answer can differ from the exact one at a cell border: refuted with a
   witness (range [-1, 1+2^-52], voxel 20/0 = altitudes [0,32), zoom 1: the code emits [1], the exact run is 0..1). The run-time check counts
   such cases under the finding class bit_rounding when the float answer is within (zoom+1) 2^-52 (|min|+|max|) of the exact border (derivation:
   BitAltRef.v), and reports anything farther away as a violation; that error bound itself is validated on every run, not proved. *)
Theorem C17_float_equals_exact_everywhere_refuted :
  exists v f oz (mx mn : pfloat) dmn dmx,
    dyadic mn = Some dmn /\ dyadic mx = Some dmx /\ range_ok dmn dmx = true /\ (0 <= v <= 35 /\ - 2 ^ v <= f < 2 ^ v) /\
    vid_to_bit v f oz mx mn = [1] /\ fwd_ref v f oz dmn dmx = (0, 1) /\ band_fwd v f oz dmn dmx 1 1 = true.
Proof. exact float_differs_witness. Qed.
Print Assumptions C17_float_equals_exact_everywhere_refuted.

(* ---------- 6. maxHeight < minHeight is an error in both directions, for any horizontal conversion ---------- *)
Theorem C17_reversed_heights_error_forward : forall hkeys s r outH outV (mx mn : pfloat),
  (mx <? mn)%float = true -> ext_to_qv hkeys (s :: r) outH outV mx mn = Err /\ sid_to_qv hkeys (s :: r) outH outV mx mn = Err.
Proof. exact reversed_heights_forward. Qed.
Print Assumptions C17_reversed_heights_error_forward.

(* reverse direction: an element with reversed heights anywhere in the list makes the conversion fail, provided every element is inside the
   model's domain (from_qv_one = None only for a non-finite / beyond-int64 vertical index, where Go's int64(NaN) is unspecified) *)
Theorem C17_reversed_heights_error_reverse : forall hids l outH outV,
  (forall q, In q l -> from_qv_one hids q outH outV <> None) ->
  (exists q, In q l /\ (q_max q <? q_min q)%float = true) ->
  qv_to_ext hids l outH outV = Some Err.
Proof. exact qv_to_ext_reversed_heights_err. Qed.
Print Assumptions C17_reversed_heights_error_reverse.
(* without the domain hypothesis only this weaker form holds (None = an earlier element left the model's domain) *)
Theorem C17_reversed_heights_error_reverse_spatial_partial : forall hids l z,
  (exists q, In q l /\ (q_max q <? q_min q)%float = true) ->
  qv_to_sid hids l z = Some Err \/ qv_to_sid hids l z = None.
Proof. exact qv_to_sid_reversed_heights. Qed.
Print Assumptions C17_reversed_heights_error_reverse_spatial_partial.
(* Model facts about the empty list (no voxel is interpreted, so the property, which quantifies over voxels, demands nothing there): the
   conversions return Ok [] whatever the heights; this is why the forward error theorem above is stated for s :: r. *)
Theorem C17_empty_list_is_never_an_error : forall hkeys outH outV (mx mn : pfloat), quadkey_check_zoom outH outV = true ->
  ext_to_qv hkeys [] outH outV mx mn = Ok [] /\ sid_to_qv hkeys [] outH outV mx mn = Ok [].
Proof. exact ext_to_qv_empty. Qed.
Print Assumptions C17_empty_list_is_never_an_error.
Theorem C17_empty_list_reverse : forall hids outH outV, ext_check_zoom outH outV = true -> qv_to_ext hids [] outH outV = Some (Ok []).
Proof. exact qv_to_ext_empty. Qed.
Print Assumptions C17_empty_list_reverse.
Theorem C17_empty_list_with_reversed_heights_is_ok :
  exists (mx mn : pfloat), (mx <? mn)%float = true /\ forall hkeys, ext_to_qv hkeys [] 20 1 mx mn = Ok [].
Proof. exact reversed_heights_empty_list_witness. Qed.
Print Assumptions C17_empty_list_with_reversed_heights_is_ok.
(* the spatial-ID variant is the extended conversion at (z, z) with every ID rewritten from z/x/y/z/f to z/f/x/y *)
Theorem C17_api_reverse_spatial : forall hids l z r, qv_to_sid hids l z = Some (Ok r) ->
  exists a, qv_to_ext hids l z z = Some (Ok a) /\ map_opt eid_to_sid_str a = Some r.
Proof. exact qv_to_sid_spec. Qed.
Print Assumptions C17_api_reverse_spatial.

(* ---------- 7. reverse direction. (a) the vertical index of an altitude is its exact floor; (b) PARTIAL: the emitted IDs are the contiguous run
   between the indices of the two COMPUTED float bounds (nothing here ties those to the true bounds of the cell; hypotheses: finite intermediates,
   indices below 2^52); (c) on dyadic ranges the computed bounds ARE the true bounds and the emitted run is the exact reference run, hence covers
   the cell's altitude interval; (d) in general that is refuted: finding class bit_rounding_reverse ---------- *)
Theorem C17_vertical_index_is_exact_floor : forall (a : pfloat) oz, 0 <= oz <= 35 -> alt_ok a oz ->
  f_f a oz = Some (Zfloor (val a * bpow radix2 (oz - 25))).
Proof. exact f_f_exact. Qed.
Print Assumptions C17_vertical_index_is_exact_floor.

Theorem C17_reverse_is_run_between_computed_bounds_partial : forall vz k oz (mx mn : pfloat),
  0 <= vz <= 35 -> 0 <= oz <= 35 -> Z.abs k < 2 ^ 52 -> fin mx -> fin mn -> (val mn <= val mx)%R ->
  let h := cell_height vz mx mn in
  let blo := cell_alt k h mn in let bhi := cell_alt (k + 1) h mn in
  fin (mx - mn)%float -> fin h -> fin (of_Z k * h)%float -> fin (of_Z (k + 1) * h)%float -> alt_ok blo oz -> alt_ok bhi oz ->
  let lo := Zfloor (val blo * bpow radix2 (oz - 25)) in
  let hi := Zfloor (val bhi * bpow radix2 (oz - 25)) in
  bit_to_vid vz k oz mx mn = Some (map (vstr oz) (vid_run hi lo)) /\
  lo <= hi /\
  (forall x, In x (vid_run hi lo) <-> lo <= x <= hi) /\
  (forall a : R, (val blo <= a <= val bhi)%R -> lo <= Zfloor (a * bpow radix2 (oz - 25)) <= hi).
Proof. exact bit_to_vid_run. Qed.
Print Assumptions C17_reverse_is_run_between_computed_bounds_partial.

(* (c) bounds a 2^e < b 2^e with (|a|+|b|) 2^(vz+2) < 2^53 (e.g. [0,500], +-256, [-100,400] at every vz up to 35 resp. 41-log2 bits), cell numbers
   |k| <= 2^(vz+1), indices below 2^52: max-min, /2^vz, float64(k)*h and +min are all exact *)
Theorem C17_reverse_equals_reference_on_dyadic_ranges : forall vz k oz (mx mn : pfloat) (a b e : Z),
  0 <= vz <= 35 -> 0 <= oz <= 35 -> fin mx -> fin mn -> val mn = (IZR a * bpow radix2 e)%R -> val mx = (IZR b * bpow radix2 e)%R ->
  Z.abs k <= 2 ^ (vz + 1) -> (Z.abs a + Z.abs b) * 2 ^ (vz + 2) < 2 ^ 53 -> -900 <= e - vz -> e + 60 <= 1024 ->
  (IZR (Z.abs a + Z.abs b) * bpow radix2 (e + 2 + (oz - 25)) < bpow radix2 52)%R ->
  let '(lo, hi) := rev_ref vz k oz (a, e) (b, e) in
  bit_to_vid vz k oz mx mn = Some (map (vstr oz) (vid_run hi lo)).
Proof. exact bit_to_vid_dyadic_exact. Qed.
Print Assumptions C17_reverse_equals_reference_on_dyadic_ranges.
(* (d) range [0.1, 0.3] (the float64 values), cell 14 of 2^5, output zoom 35: the code emits 192..198, the exact run is 191..198: the lowest
   sliver of the cell is not covered. Inside the reverse band 4 * 2^-52 (|min|+|max|): class bit_rounding_reverse. *)
Theorem C17_reverse_equals_exact_everywhere_refuted :
  exists vz k oz (mx mn : pfloat) dmn dmx,
    dyadic mn = Some dmn /\ dyadic mx = Some dmx /\ range_ok_rev dmn dmx vz k = true /\
    bit_to_vid_idx vz k oz mx mn = Some (198, 192) /\ rev_ref vz k oz dmn dmx = (191, 198) /\ band_rev vz k oz dmn dmx 192 198 = true.
Proof. exact reverse_differs_witness. Qed.
Print Assumptions C17_reverse_equals_exact_everywhere_refuted.

(* ---------- 8. the exported conversions in height-range mode, for any horizontal conversion ---------- *)
Theorem C17_api_forward_pairs : forall hkeys outH outV (mx mn : pfloat), (mn <? mx)%float = true -> forall ids gs,
  ext_to_qv hkeys ids outH outV mx mn = Ok gs ->
  quadkey_check_zoom outH outV = true /\
  (forall s, In s ids -> exists i, parse_eid s = Some i /\ ext_check_zoom (eh i) (ev i) = true) /\
  (forall q v, In (q, v) (List.concat gs) <->
     exists s i, In s ids /\ parse_eid s = Some i /\ In q (hkeys (eh i) (ex i) (ey i) outH) /\ In v (vid_to_bit (ev i) (ef i) outV mx mn)).
Proof. exact ext_to_qv_pairs. Qed.
Print Assumptions C17_api_forward_pairs.

Theorem C17_api_reverse_element : forall hids q outH outV r, (q_min q <? q_max q)%float = true ->
  from_qv_one hids q outH outV = Some (Ok r) ->
  quadkey_check_zoom (q_hz q) (q_vz q) = true /\ q_key q <= qkey_limit /\ q_idx q <= 2 ^ (q_vz q + 1) /\
  exists vs, bit_to_vid (q_vz q) (q_idx q) outV (q_max q) (q_min q) = Some vs /\
             forall id, In id r <-> exists hs v, In hs (hids (q_hz q) (q_key q) outH) /\ In v vs /\ id = (hs ++ "/" ++ v)%string.
Proof. exact from_qv_one_spec. Qed.
Print Assumptions C17_api_reverse_element.

(* the whole list: the result set is the union of the elements' results *)
Theorem C17_api_reverse_list : forall hids l outH outV r, qv_to_ext hids l outH outV = Some (Ok r) ->
  ext_check_zoom outH outV = true /\
  (forall id, In id r <-> exists q a, In q l /\ from_qv_one hids q outH outV = Some (Ok a) /\ In id a).
Proof. exact qv_to_ext_spec. Qed.
Print Assumptions C17_api_reverse_list.
(* the spatial-ID forward conversion is the extended one after the notation change (so C17_api_forward_pairs applies to it) *)
Theorem C17_api_forward_spatial : forall hkeys ids outH outV (mx mn : pfloat) gs, sid_to_qv hkeys ids outH outV mx mn = Ok gs ->
  exists e, map_opt sid_to_eid_str ids = Some e /\ ext_to_qv hkeys e outH outV mx mn = Ok gs.
Proof. exact sid_to_qv_spec. Qed.
Print Assumptions C17_api_forward_spatial.

(* ---------- 9. the run-time checkers decide the specification ---------- *)
Theorem C17_run_checker_sound : forall obs lo hi, check_run obs lo hi = true -> lo <= hi /\ forall y, In y obs <-> lo <= y <= hi.
Proof. exact check_run_sound. Qed.
Print Assumptions C17_run_checker_sound.
Theorem C17_run_checker_complete : forall obs lo hi, lo <= hi -> (forall y, In y obs <-> lo <= y <= hi) -> check_run obs lo hi = true.
Proof. exact check_run_complete. Qed.
Print Assumptions C17_run_checker_complete.
Theorem C17_forward_checker_sound : forall v f oz dmn dmx obs, check_fwd v f oz dmn dmx obs = true ->
  let '(lo, hi) := fwd_ref v f oz dmn dmx in lo <= hi /\ forall y, In y obs <-> lo <= y <= hi.
Proof. exact check_fwd_sound. Qed.
Print Assumptions C17_forward_checker_sound.
Theorem C17_reverse_checker_sound : forall vz k oz dmn dmx obs, check_rev vz k oz dmn dmx obs = true ->
  let '(lo, hi) := rev_ref vz k oz dmn dmx in lo <= hi /\ forall y, In y obs <-> lo <= y <= hi.
Proof. exact check_rev_sound. Qed.
Print Assumptions C17_reverse_checker_sound.
Theorem C17_forward_checker_complete : forall v f oz dmn dmx obs,
  (let '(lo, hi) := fwd_ref v f oz dmn dmx in lo <= hi /\ forall y, In y obs <-> lo <= y <= hi) -> check_fwd v f oz dmn dmx obs = true.
Proof. exact check_fwd_complete. Qed.
Print Assumptions C17_forward_checker_complete.
Theorem C17_reverse_checker_complete : forall vz k oz dmn dmx obs,
  (let '(lo, hi) := rev_ref vz k oz dmn dmx in lo <= hi /\ forall y, In y obs <-> lo <= y <= hi) -> check_rev vz k oz dmn dmx obs = true.
Proof. exact check_rev_complete. Qed.
Print Assumptions C17_reverse_checker_complete.
Theorem C17_reverse_reference_is_exact : forall vz k oz dmn dmx, 0 <= vz ->
  rev_ref vz k oz dmn dmx =
  (Zfloor ((dval dmn + IZR k * ((dval dmx - dval dmn) / IZR (2 ^ vz))) * bpow radix2 (oz - 25)),
   Zfloor ((dval dmn + IZR (k + 1) * ((dval dmx - dval dmn) / IZR (2 ^ vz))) * bpow radix2 (oz - 25))).
Proof. exact rev_ref_real. Qed.
Print Assumptions C17_reverse_reference_is_exact.

(* ---------- 10. histories. Every theorem above is about a Gallina function: its answer depends on the arguments of the call and on nothing else,
   so the model gives the same answer after ANY history of earlier calls. The run-time check therefore judges each step of a history (a case
   "Sequence": calls executed back to back in one process, with the caller scribbling over its own arguments and results in between) exactly
   like a standalone call: the verdict on step i is `judge` of that step's own arguments and its own observed output, whatever precedes or
   follows it. (That the CODE behaves the same in every history is what those cases test; it is not a theorem.) ---------- *)
Theorem C17_history_steps_judged_independently : forall oracle pre opre s o post opost, List.length pre = List.length opre ->
  nth_error (seq_judge oracle (pre ++ s :: post) (opre ++ o :: opost)) (List.length pre) = Some (judge oracle s o).
Proof. exact seq_judge_independent. Qed.
Print Assumptions C17_history_steps_judged_independently.
Theorem C17_history_one_verdict_per_step : forall oracle steps obs, List.length steps = List.length obs ->
  List.length (seq_judge oracle steps obs) = List.length steps.
Proof. exact seq_judge_length. Qed.
Print Assumptions C17_history_one_verdict_per_step.

(* ---------- 11. THE SAME RESULTS OVER THE DEFINITIONS REGENERATED FROM THE GO SOURCE (coq/generated/GeneratedF.v, rewritten by the translator on
   every run; GenC17.v rewrites with the gen_ lemmas of GenEqFBit.v / GenEqFPoint.v). gen_top / gen_bottom = the locals spatialIDMaxHeight /
   spatialIDMinHeight of convertVerticallIDToBit; gen_calcBitIndex = the generated loop body of calcBitIndex iterated `zoom` times from 0 (the
   loop header itself is not regenerated); gen_cell_top / gen_cell_bottom = maxAltitude / minAltitude of convertBitToVerticalID; gen_vindex =
   the local vIndex of getVerticalTileIdOnAltitude. A semantic edit of one of these kernels breaks these theorems. ---------- *)
Theorem C17_gen_loop_is_model : forall (alt : pfloat) zoom (mx mn : pfloat), gen_calcBitIndex alt zoom mx mn = calc_bit_index alt zoom mx mn.
Proof. exact gen_calcBitIndex_eq. Qed.
Print Assumptions C17_gen_loop_is_model.
Theorem C17_gen_index_always_in_range : forall (alt : pfloat) zoom (mx mn : pfloat), 0 <= zoom -> 0 <= gen_calcBitIndex alt zoom mx mn < 2 ^ zoom.
Proof. exact gen_index_in_range. Qed.
Print Assumptions C17_gen_index_always_in_range.
Theorem C17_gen_index_monotone : forall (a1 a2 : pfloat) zoom (mx mn : pfloat), (a1 <=? a2)%float = true ->
  gen_calcBitIndex a1 zoom mx mn <= gen_calcBitIndex a2 zoom mx mn.
Proof. exact gen_index_monotone. Qed.
Print Assumptions C17_gen_index_monotone.
Theorem C17_gen_voxel_faces_exact : forall v f oz (mx mn : pfloat), 0 <= v <= 35 -> Z.abs f < 2 ^ 52 ->
  val (gen_bottom v f oz mx mn) = (IZR f * bpow radix2 (25 - v))%R /\ fin (gen_bottom v f oz mx mn) /\
  val (gen_top v f oz mx mn) = (IZR (f + 1) * bpow radix2 (25 - v))%R /\ fin (gen_top v f oz mx mn).
Proof. exact gen_faces_exact. Qed.
Print Assumptions C17_gen_voxel_faces_exact.
Theorem C17_gen_forward_is_contiguous_run : forall v f oz (mx mn : pfloat), 0 <= v <= 35 -> Z.abs f < 2 ^ 52 -> 0 <= oz ->
  let lo := gen_calcBitIndex (gen_bottom v f oz mx mn) oz mx mn in
  let hi := gen_calcBitIndex (gen_top v f oz mx mn) oz mx mn in
  vid_to_bit v f oz mx mn = run_of hi lo /\
  0 <= lo <= hi /\ hi < 2 ^ oz /\ NoDup (run_of hi lo) /\ forall x, In x (run_of hi lo) <-> lo <= x <= hi.
Proof. exact gen_forward_is_contiguous_run. Qed.
Print Assumptions C17_gen_forward_is_contiguous_run.
Theorem C17_gen_index_exact_on_dyadic_ranges : forall (alt mx mn : pfloat) (a b e zoom : Z),
  fin alt -> fin mx -> fin mn -> val mn = (IZR a * bpow radix2 e)%R -> val mx = (IZR b * bpow radix2 e)%R -> a < b ->
  0 <= zoom -> Z.abs a * 2 ^ zoom < 2 ^ 51 -> Z.abs b * 2 ^ zoom < 2 ^ 51 -> -1074 <= e - zoom -> e + 54 <= 1024 ->
  gen_calcBitIndex alt zoom mx mn = clampZ 0 (2 ^ zoom - 1) (Zfloor ((val alt - val mn) / (val mx - val mn) * IZR (2 ^ zoom))).
Proof. exact gen_index_exact_on_dyadic_ranges. Qed.
Print Assumptions C17_gen_index_exact_on_dyadic_ranges.
Theorem C17_gen_forward_equals_reference_on_dyadic_ranges : forall v f oz (mx mn : pfloat) (a b e : Z),
  0 <= v <= 35 -> Z.abs f < 2 ^ 52 -> 0 <= oz ->
  fin mx -> fin mn -> val mn = (IZR a * bpow radix2 e)%R -> val mx = (IZR b * bpow radix2 e)%R -> a < b ->
  Z.abs a * 2 ^ oz < 2 ^ 51 -> Z.abs b * 2 ^ oz < 2 ^ 51 -> -1074 <= e - oz -> e + 54 <= 1024 ->
  (gen_calcBitIndex (gen_bottom v f oz mx mn) oz mx mn, gen_calcBitIndex (gen_top v f oz mx mn) oz mx mn) = fwd_ref v f oz (a, e) (b, e).
Proof. exact gen_forward_equals_reference_on_dyadic_ranges. Qed.
Print Assumptions C17_gen_forward_equals_reference_on_dyadic_ranges.
Theorem C17_gen_float_equals_exact_everywhere_refuted :
  exists (mx mn : pfloat) dmn dmx, dyadic mn = Some dmn /\ dyadic mx = Some dmx /\ range_ok dmn dmx = true /\
    gen_calcBitIndex (gen_bottom 20 0 1 mx mn) 1 mx mn = 1 /\ idx_ref (vox_dy 0 20) dmn dmx 1 = 0.
Proof. exact gen_float_differs_witness. Qed.
Print Assumptions C17_gen_float_equals_exact_everywhere_refuted.
(* reverse direction *)
Theorem C17_gen_reverse_indices_are_model : forall vz k oz (mx mn : pfloat),
  bit_to_vid_idx vz k oz mx mn =
  match Ztrunc_f (gen_vindex (gen_cell_top vz k oz mx mn) oz), Ztrunc_f (gen_vindex (gen_cell_bottom vz k oz mx mn) oz) with
  | Some hi, Some lo => Some (hi, lo)
  | _, _ => None
  end.
Proof. exact gen_bit_to_vid_idx_eq. Qed.
Print Assumptions C17_gen_reverse_indices_are_model.
Theorem C17_gen_vertical_index_is_exact_floor : forall (a : pfloat) oz, 0 <= oz <= 35 -> alt_ok a oz ->
  Ztrunc_f (gen_vindex a oz) = Some (Zfloor (val a * bpow radix2 (oz - 25))).
Proof. exact gen_vertical_index_is_exact_floor. Qed.
Print Assumptions C17_gen_vertical_index_is_exact_floor.
Theorem C17_gen_reverse_equals_reference_on_dyadic_ranges : forall (vz k oz : Z) (mx mn : pfloat) (a b e : Z),
  0 <= vz <= 35 -> 0 <= oz <= 35 -> fin mx -> fin mn -> val mn = (IZR a * bpow radix2 e)%R -> val mx = (IZR b * bpow radix2 e)%R ->
  Z.abs k <= 2 ^ (vz + 1) -> (Z.abs a + Z.abs b) * 2 ^ (vz + 2) < 2 ^ 53 -> -900 <= e - vz -> e + 60 <= 1024 ->
  (IZR (Z.abs a + Z.abs b) * bpow radix2 (e + 2 + (oz - 25)) < bpow radix2 52)%R ->
  val (gen_cell_bottom vz k oz mx mn) = dval (cell_dy k vz (a, e) (b, e)) /\
  val (gen_cell_top vz k oz mx mn) = dval (cell_dy (k + 1) vz (a, e) (b, e)) /\
  (Ztrunc_f (gen_vindex (gen_cell_bottom vz k oz mx mn) oz), Ztrunc_f (gen_vindex (gen_cell_top vz k oz mx mn) oz)) =
  (let '(lo, hi) := rev_ref vz k oz (a, e) (b, e) in (Some lo, Some hi)).
Proof. exact gen_reverse_equals_reference_on_dyadic_ranges. Qed.
Print Assumptions C17_gen_reverse_equals_reference_on_dyadic_ranges.
Theorem C17_gen_reverse_equals_exact_everywhere_refuted :
  exists (mx mn : pfloat) dmn dmx, dyadic mn = Some dmn /\ dyadic mx = Some dmx /\ range_ok_rev dmn dmx 5 14 = true /\
    Ztrunc_f (gen_vindex (gen_cell_bottom 5 14 35 mx mn) 35) = Some 192 /\ Ztrunc_f (gen_vindex (gen_cell_top 5 14 35 mx mn) 35) = Some 198 /\
    rev_ref 5 14 35 dmn dmx = (191, 198).
Proof. exact gen_reverse_differs_witness. Qed.
Print Assumptions C17_gen_reverse_equals_exact_everywhere_refuted.

(* ---------- non-vacuity ---------- *)
(* the generated loop on the unit-test literals; the generated faces of 16/-1 in [-256,768) at zoom 4 (cells 0..4); the generated bounds of cell
   85 of 2^8 of [0,1000] at output zoom 26 (indices 664..671). The dyadic hypotheses are those of C17_ex_dyadic_hypotheses / _reverse_hypotheses. *)
Example C17_ex_generated :
  gen_calcBitIndex 256 10 500 0 = 524 /\ gen_calcBitIndex 0 10 256 (-256) = 512 /\ gen_calcBitIndex (-200) 10 0 (-500) = 614 /\
  gen_calcBitIndex (gen_bottom 16 (-1) 4 768 (-256)) 4 768 (-256) = 0 /\ gen_calcBitIndex (gen_top 16 (-1) 4 768 (-256)) 4 768 (-256) = 4 /\
  Ztrunc_f (gen_vindex (gen_cell_bottom 8 85 26 1000 0) 26) = Some 664 /\ Ztrunc_f (gen_vindex (gen_cell_top 8 85 26 1000 0) 26) = Some 671.
Proof. exact gen_examples. Qed.
(* a two-step history: the second step (calcBitIndex 256 10 500 0, observed 524) gets the verdict of the standalone call, which accepts it;
   a wrong observation (523) in the same place is rejected, whatever the first step was *)
Example C17_ex_history :
  let o : oracle_t := fun _ _ => VNil in
  let s1 := VL [VS "convertVerticallIDToBit"; VL [VZ 13; VZ (-6); VZ 5; VF 500; VF 0]; VB true] in
  let s2 := VL [VS "calcBitIndex"; VL [VF 256; VZ 10; VF 500; VF 0]; VB false] in
  nth_error (seq_judge o [s1; s2] [VL [VZ 0]; VZ 524]) 1 = Some (judge o s2 (VZ 524)) /\
  v_corr (judge o s2 (VZ 524)) = true /\ v_prop (judge o s2 (VZ 524)) = true /\
  v_prop (d_sequence o [VL [s1; s2]] (VL [VL [VL [VZ 0]; VZ 524]; VB true])) = true /\
  v_prop (d_sequence o [VL [s1; s2]] (VL [VL [VL [VZ 0]; VZ 523]; VB true])) = false /\
  v_prop (d_sequence o [VL [s1; s2]] (VL [VL [VL [VZ 0]; VZ 524]; VB false])) = false.
Proof. vm_compute. repeat split. Qed.
(* the literals of the unit tests, and the documentation's voxel 26/51 in the range +-256 at zoom 7 *)
Example C17_ex_calc : calc_bit_index 256 10 500 0 = 524 /\ calc_bit_index 0 10 256 (-256) = 512 /\ calc_bit_index (-200) 10 0 (-500) = 614 /\
  calc_bit_index 2560 10 500 0 = 1023 /\ calc_bit_index (-256) 10 500 0 = 0.
Proof. vm_compute. repeat split. Qed.
Example C17_ex_forward : vid_to_bit 20 0 8 500 (-500) = [136; 128; 129; 130; 131; 132; 133; 134; 135] /\ vid_to_bit 13 (-6) 5 500 0 = [0] /\
  vid_to_bit 26 51 7 256 (-256) = [70] /\ vid_to_bit 16 (-1) 4 768 (-256) = [4; 0; 1; 2; 3].
Proof. vm_compute. repeat split. Qed.
Example C17_ex_reverse : bit_to_vid 8 85 26 1000 0 = Some ["26/671"; "26/664"; "26/665"; "26/666"; "26/667"; "26/668"; "26/669"; "26/670"]%string.
Proof. vm_compute. reflexivity. Qed.
(* the hypotheses of the dyadic theorem are satisfiable: the documentation's range +-256 = (-1) 2^8 .. 1 2^8 at zoom 35 *)
Example C17_ex_dyadic_hypotheses : fin 256%float /\ fin (-256)%float /\ val (-256)%float = (IZR (-1) * bpow radix2 8)%R /\
  val 256%float = (IZR 1 * bpow radix2 8)%R /\ Z.abs (-1) * 2 ^ 35 < 2 ^ 51 /\ Z.abs 1 * 2 ^ 35 < 2 ^ 51 /\ -1074 <= 8 - 35 /\ 8 + 54 <= 1024.
Proof. exact dyadic_hyps_example. Qed.
(* the hypotheses of the reverse theorem are satisfiable (range [0,1000], cell 85 of 2^8, output zoom 26) *)
Example C17_ex_reverse_hypotheses :
  let h := cell_height 8 1000 0 in
  fin 1000%float /\ fin 0%float /\ (val 0%float <= val 1000%float)%R /\ fin (1000 - 0)%float /\ fin h /\ fin (of_Z 85 * h)%float /\
  fin (of_Z 86 * h)%float /\ alt_ok (cell_alt 85 h 0) 26 /\ alt_ok (cell_alt 86 h 0) 26.
Proof. exact reverse_hyps_example. Qed.

(* ---- the regenerated cell height of convertBitToVerticalID (GeneratedF.convertBitToVerticalID_voxelHeight): the regenerated cell
   altitudes are k / k+1 regenerated heights above the lower end, consecutive cells share their face bit for bit, the height depends on
   neither the cell nor the output zoom and is not negative on an ordered finite range ---- *)
Theorem C17_gen_cell_altitudes_over_generated_height : forall vz k oz (mx mn : pfloat),
  gen_cell_bottom vz k oz mx mn = cell_alt k (gen_cell_height vz k oz mx mn) mn /\
  gen_cell_top vz k oz mx mn = cell_alt (k + 1) (gen_cell_height vz k oz mx mn) mn /\
  (forall k' oz', gen_cell_height vz k' oz' mx mn = gen_cell_height vz k oz mx mn) /\
  gen_cell_top vz k oz mx mn = gen_cell_bottom vz (k + 1) oz mx mn.
Proof. exact gen_cell_altitudes_over_generated_height. Qed.
Print Assumptions C17_gen_cell_altitudes_over_generated_height.
Theorem C17_gen_cell_height_is_not_negative : forall vz k oz (mx mn : pfloat), 0 <= vz <= 35 -> fin mx -> fin mn -> (val mn <= val mx)%R ->
  fin (mx - mn)%float -> fin (gen_cell_height vz k oz mx mn) -> (0 <= val (gen_cell_height vz k oz mx mn))%R.
Proof. exact gen_cell_height_nonneg. Qed.
Print Assumptions C17_gen_cell_height_is_not_negative.
Example C17_gen_cell_height_evaluated :
  gen_cell_height 8 3 25 1000%float 0%float = 3.90625%float /\ gen_cell_bottom 8 3 25 1000%float 0%float = 11.71875%float /\
  gen_cell_top 8 3 25 1000%float 0%float = 15.625%float.
Proof. exact gen_cell_height_evaluated. Qed.
