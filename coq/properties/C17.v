(* C17 — placeholder while the models are being validated *)
From SID Require Import BitAlt.
