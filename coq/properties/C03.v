(* C03 — Changing zoom yields exactly the voxels that refine or contain the input.
   Only statements, `exact` proofs and Print Assumptions live here. Models and proofs: theories/ZoomCore.v (per-axis arithmetic of
   HorizontalZoomMinMax / HorizontalZoom / VerticalZoom) and theories/ChangeZoom.v (cross product, Unique, string level, wrapper, checkers).
   Vocabulary: `valid` = zooms 0..35, 0 <= x,y < 2^h, -2^v <= f < 2^v; `overlaps i o` = on each axis the coarser index is the floor-ancestor
   of the finer one (Voxel.overlaps_iff_meet: exactly when the regions share a point); `inR i p` = point p of normalised space lies in voxel i;
   `zspec ids H V o` = o is at zooms (H,V) and overlaps some member of ids. *)
From Coq Require Import ZArith String List Lia Permutation.
From SID Require Import Base Str Ids Voxel ZoomCore ChangeZoom.
Import ListNotations.
Open Scope Z_scope.

(* ---- the list-level result is exactly the set of target-grid voxels that intersect the inputs: nothing missing, nothing extra ---- *)
Theorem C03_exactly_the_intersecting_voxels : forall ids H V o, (forall i, In i ids -> valid i) -> 0 <= H <= 35 -> 0 <= V <= 35 ->
  (In o (change_eids ids H V) <-> eh o = H /\ ev o = V /\ exists i, In i ids /\ overlaps i o).
Proof. exact change_exact_valid. Qed.
Print Assumptions C03_exactly_the_intersecting_voxels.

(* the same statement read on regions of space *)
Theorem C03_exactly_the_intersecting_regions : forall ids H V o, (forall i, In i ids -> valid i) -> 0 <= H <= 35 -> 0 <= V <= 35 ->
  (In o (change_eids ids H V) <-> eh o = H /\ ev o = V /\ exists i, In i ids /\ exists p, inR i p /\ inR o p).
Proof. exact change_region_valid. Qed.
Print Assumptions C03_exactly_the_intersecting_regions.

Theorem C03_no_duplicates : forall ids H V, NoDup (change_eids ids H V).
Proof. exact change_NoDup. Qed.
Print Assumptions C03_no_duplicates.

Theorem C03_all_at_requested_zooms : forall ids H V o, In o (change_eids ids H V) -> eh o = H /\ ev o = V.
Proof. exact change_at_zoom. Qed.
Print Assumptions C03_all_at_requested_zooms.

Theorem C03_results_are_valid_ids : forall ids H V o, (forall i, In i ids -> valid i) -> 0 <= H <= 35 -> 0 <= V <= 35 ->
  In o (change_eids ids H V) -> valid o.
Proof. exact change_valid. Qed.
Print Assumptions C03_results_are_valid_ids.

(* ---- one input ID: `one H V i` is literally what the list-level function returns for the list [i], and (printed) what the exported
        function returns for the printed ID — the theorems below about `one H V i` are therefore statements about the result of the API ---- *)
Theorem C03_single_id_result : forall i H V, change_eids [i] H V = one H V i.
Proof. exact change_single. Qed.
Print Assumptions C03_single_id_result.
Theorem C03_single_id_api : forall i H V, valid i -> 0 <= H <= 35 -> 0 <= V <= 35 ->
  change_ext_api [print_eid i] H V = Ok (map print_eid (one H V i)).
Proof. exact change_ext_api_single. Qed.
Print Assumptions C03_single_id_api.

(* ---- raising: 4^dh * 2^dv pairwise distinct descendants; each lies inside the input, they are pairwise disjoint, and they cover it ---- *)
Theorem C03_raising_partitions_the_voxel : forall i H V, valid i -> eh i <= H -> ev i <= V ->
  length (one H V i) = Z.to_nat (4 ^ (H - eh i) * 2 ^ (V - ev i)) /\
  NoDup (one H V i) /\
  (forall o, In o (one H V i) -> eh o = H /\ ev o = V /\ forall p, inR o p -> inR i p) /\
  (forall p, inR i p -> exists o, In o (one H V i) /\ inR o p) /\
  (forall o o' p, In o (one H V i) -> In o' (one H V i) -> inR o p -> inR o' p -> o = o').
Proof. exact raise_partition_valid. Qed.
Print Assumptions C03_raising_partitions_the_voxel.

(* ---- lowering: the single ancestor (floor on every axis), whose region contains the input's ---- *)
Theorem C03_lowering_gives_the_containing_ancestor : forall i H V, valid i -> 0 <= H <= eh i -> 0 <= V <= ev i ->
  one H V i = [mk H (anc (eh i - H) (ex i)) (anc (eh i - H) (ey i)) V (anc (ev i - V) (ef i))] /\
  forall p, inR i p -> inR (mk H (anc (eh i - H) (ex i)) (anc (eh i - H) (ey i)) V (anc (ev i - V) (ef i))) p.
Proof. exact lower_single_valid. Qed.
Print Assumptions C03_lowering_gives_the_containing_ancestor.

(* ---- the axes are independent: the result for one ID is the product of the horizontal and the vertical result (this first statement unfolds
        the model's cross product; its content about the grid is in the two `mixed` theorems: one axis refined while the other is coarsened) ---- *)
Theorem C03_axes_independent : forall H V i x y f,
  In (mk H x y V f) (one H V i) <-> In (x, y) (hzoom (eh i) (ex i) (ey i) H) /\ In f (vzoom (ev i) (ef i) V).
Proof. exact one_product_In. Qed.
Print Assumptions C03_axes_independent.
Theorem C03_count_is_product : forall H V i, length (one H V i) = Z.to_nat (4 ^ Z.max 0 (H - eh i) * 2 ^ Z.max 0 (V - ev i)).
Proof. exact one_length. Qed.
Print Assumptions C03_count_is_product.
Theorem C03_mixed_raise_h_lower_v : forall i H V, valid i -> eh i <= H -> 0 <= V <= ev i -> forall o,
  In o (one H V i) <->
  eh o = H /\ ev o = V /\ anc (H - eh i) (ex o) = ex i /\ anc (H - eh i) (ey o) = ey i /\ ef o = anc (ev i - V) (ef i).
Proof. exact mixed_up_down_valid. Qed.
Print Assumptions C03_mixed_raise_h_lower_v.
Theorem C03_mixed_lower_h_raise_v : forall i H V, valid i -> 0 <= H <= eh i -> ev i <= V -> forall o,
  In o (one H V i) <->
  eh o = H /\ ev o = V /\ ex o = anc (eh i - H) (ex i) /\ ey o = anc (eh i - H) (ey i) /\ anc (V - ev i) (ef o) = ef i.
Proof. exact mixed_down_up_valid. Qed.
Print Assumptions C03_mixed_lower_h_raise_v.

(* ---- floor semantics below ground ---- *)
Theorem C03_ancestor_of_minus_one_is_minus_one : forall zin zout, zout <= zin -> vzoom zin (-1) zout = [-1].
Proof. exact vzoom_neg1. Qed.
Print Assumptions C03_ancestor_of_minus_one_is_minus_one.
Theorem C03_minus_one_stays_minus_one_in_the_list_api : forall h x y v H V o, 0 <= h -> 0 <= x -> 0 <= y -> V <= v ->
  In o (change_eids [mk h x y v (-1)] H V) -> ef o = -1.
Proof. exact change_neg1. Qed.
Print Assumptions C03_minus_one_stays_minus_one_in_the_list_api.
Theorem C03_vertical_axis_is_floor : forall zin f zout o, 0 <= zin -> 0 <= zout ->
  (In o (vzoom zin f zout) <-> (if zin <=? zout then anc (zout - zin) o = f else anc (zin - zout) f = o)).
Proof. exact vzoom_exact. Qed.
Print Assumptions C03_vertical_axis_is_floor.

(* ---- the exported string-level functions ---- *)
(* ChangeExtendedSpatialIdsZoom on any list of strings that parse to valid IDs: no error, and the printed list-level result *)
Theorem C03_extended_api : forall sl es H V, parse_all sl = Some es -> (forall i, In i es -> valid i) -> 0 <= H <= 35 -> 0 <= V <= 35 ->
  change_ext_api sl H V = Ok (map print_eid (change_eids es H V)).
Proof. exact change_ext_api_parsed. Qed.
Print Assumptions C03_extended_api.
Theorem C03_extended_api_on_printed_ids : forall ids H V, (forall i, In i ids -> valid i) -> 0 <= H <= 35 -> 0 <= V <= 35 ->
  change_ext_api (map print_eid ids) H V = Ok (map print_eid (change_eids ids H V)).
Proof. exact change_ext_api_spec. Qed.
Print Assumptions C03_extended_api_on_printed_ids.
Theorem C03_extended_api_rejects_bad_zoom : forall ids H V, ~ (0 <= H <= 35 /\ 0 <= V <= 35) -> change_ext_api ids H V = Err.
Proof. exact change_ext_api_bad_zoom. Qed.
Print Assumptions C03_extended_api_rejects_bad_zoom.
Theorem C03_extended_api_rejects_malformed_id : forall ids s H V, In s ids -> parse_eid s = None -> change_ext_api ids H V = Err.
Proof. exact change_ext_api_malformed. Qed.
Print Assumptions C03_extended_api_rejects_malformed_id.

(* ChangeSpatialIdsZoom = the extended-form change at (zoom, zoom) conjugated by the notation change *)
Theorem C03_single_zoom_api_is_conjugation : forall sids z,
  change_sid_api sids z =
  match sids_to_eids sids with
  | Err => Err
  | Ok es => match change_ext_api es z z with Err => Err | Ok r => eids_to_sids r end
  end.
Proof. exact change_sid_api_conjugation. Qed.
Print Assumptions C03_single_zoom_api_is_conjugation.
Theorem C03_single_zoom_api : forall sl es z, map_opt parse_sid sl = Some es -> (forall i, In i es -> valid i) -> 0 <= z <= 35 ->
  change_sid_api sl z = Ok (map print_sid (change_eids es z z)).
Proof. exact change_sid_api_parsed. Qed.
Print Assumptions C03_single_zoom_api.

(* the exported per-axis helpers *)
Theorem C03_HorizontalZoom : forall zin x y zout, 0 <= zin <= 35 -> 0 <= zout <= 35 -> 0 <= x < 2 ^ zin -> 0 <= y < 2 ^ zin ->
  NoDup (hzoom_strs zin x y zout) /\
  forall s, In s (hzoom_strs zin x y zout) <-> exists ox oy, s = hstr zout ox oy /\ rel1 zin x zout ox /\ rel1 zin y zout oy.
Proof. exact hzoom_strs_spec. Qed.
Print Assumptions C03_HorizontalZoom.
Theorem C03_VerticalZoom : forall zin f zout, 0 <= zin <= 35 -> 0 <= zout <= 35 -> - 2 ^ zin <= f < 2 ^ zin ->
  NoDup (vzoom_strs zin f zout) /\ forall s, In s (vzoom_strs zin f zout) <-> exists o, s = vstr zout o /\ rel1 zin f zout o.
Proof. exact vzoom_strs_spec. Qed.
Print Assumptions C03_VerticalZoom.
Theorem C03_HorizontalZoomMinMax : forall zin x y zout, 0 <= zin -> 0 <= zout -> 0 <= x -> 0 <= y ->
  exists a b c d, hzoom_minmax_l zin x y zout = [a; b; c; d] /\
    (forall ox, a <= ox <= c <-> rel1 zin x zout ox) /\ (forall oy, b <= oy <= d <-> rel1 zin y zout oy).
Proof. exact hzoom_minmax_spec. Qed.
Print Assumptions C03_HorizontalZoomMinMax.

(* ---- the result set depends only on the set of inputs: order and repetition of the input list are irrelevant ---- *)
Theorem C03_input_order_irrelevant : forall ids ids' H V, Permutation ids ids' ->
  Permutation (change_eids ids H V) (change_eids ids' H V).
Proof. exact change_perm. Qed.
Print Assumptions C03_input_order_irrelevant.
Theorem C03_input_repetition_irrelevant : forall ids extra H V, incl extra ids ->
  Permutation (change_eids (ids ++ extra) H V) (change_eids ids H V).
Proof. exact change_dup. Qed.
Print Assumptions C03_input_repetition_irrelevant.
Theorem C03_union_of_inputs : forall ids ids' H V o,
  In o (change_eids (ids ++ ids') H V) <-> In o (change_eids ids H V) \/ In o (change_eids ids' H V).
Proof. exact change_app. Qed.
Print Assumptions C03_union_of_inputs.

(* ---- the run-time checkers applied to the implementation's output decide exactly the specification ---- *)
Theorem C03_checker_sound : forall ins H V obs, (forall i, In i ins -> valid i) -> 0 <= H <= 35 -> 0 <= V <= 35 ->
  (check_change ins H V obs = true <->
   NoDup obs /\ forall s, In s obs <-> exists o, s = print_eid o /\ eh o = H /\ ev o = V /\ exists i, In i ins /\ overlaps i o).
Proof. exact check_change_sound. Qed.
Print Assumptions C03_checker_sound.
Theorem C03_checker_sid_sound : forall ins z obs, (forall i, In i ins -> valid i) -> 0 <= z <= 35 ->
  (check_change_sid ins z obs = true <->
   NoDup obs /\ forall s, In s obs <-> exists o, s = print_sid o /\ eh o = z /\ ev o = z /\ exists i, In i ins /\ overlaps i o).
Proof. exact check_change_sid_sound. Qed.
Print Assumptions C03_checker_sid_sound.
Theorem C03_checker_hzoom_sound : forall zin x y zout obs, 0 <= zin <= 35 -> 0 <= zout <= 35 -> 0 <= x < 2 ^ zin -> 0 <= y < 2 ^ zin ->
  (check_hzoom zin x y zout obs = true <->
   NoDup obs /\ forall s, In s obs <-> exists ox oy, s = hstr zout ox oy /\ rel1 zin x zout ox /\ rel1 zin y zout oy).
Proof. exact check_hzoom_sound. Qed.
Print Assumptions C03_checker_hzoom_sound.
Theorem C03_checker_vzoom_sound : forall zin f zout obs, 0 <= zin <= 35 -> 0 <= zout <= 35 -> - 2 ^ zin <= f < 2 ^ zin ->
  (check_vzoom zin f zout obs = true <-> NoDup obs /\ forall s, In s obs <-> exists o, s = vstr zout o /\ rel1 zin f zout o).
Proof. exact check_vzoom_sound. Qed.
Print Assumptions C03_checker_vzoom_sound.
Theorem C03_checker_minmax_sound : forall zin x y zout obs, 0 <= zin -> 0 <= zout ->
  (check_minmax zin x y zout obs = true <->
   exists a b c d, obs = [a; b; c; d] /\
     (forall ox, a <= ox <= c <-> rel1 zin x zout ox) /\ (forall oy, b <= oy <= d <-> rel1 zin y zout oy)).
Proof. exact check_minmax_sound. Qed.
Print Assumptions C03_checker_minmax_sound.
(* the model's own output passes the checker (the implementation is asked for nothing the model does not deliver) *)
Theorem C03_model_passes_checker : forall ids H V, (forall i, In i ids -> valid i) -> 0 <= H <= 35 -> 0 <= V <= 35 ->
  check_change ids H V (map print_eid (change_eids ids H V)) = true.
Proof. exact model_passes_check. Qed.
Print Assumptions C03_model_passes_checker.

(* ---- histories: the model keeps no state, so the answer to a call is a function of that call's own arguments — after any past, whatever
        follows, and a repeated call repeats its answer. This is what justifies judging every step of a generated call history (entries
        "Sequence" and "History") exactly like a standalone call ---- *)
Theorem C03_answers_do_not_depend_on_history : forall log h, run_from log h = map answer_of h.
Proof. exact history_irrelevant. Qed.
Print Assumptions C03_answers_do_not_depend_on_history.
Theorem C03_same_answer_after_any_history : forall log log' before before' after after' c,
  nth_error (run_from log (before ++ c :: after)) (length before) = Some (answer_of c) /\
  nth_error (run_from log (before ++ c :: after)) (length before) =
  nth_error (run_from log' (before' ++ c :: after')) (length before').
Proof. exact answer_after_any_history. Qed.
Print Assumptions C03_same_answer_after_any_history.
Theorem C03_repeated_call_same_answer : forall log c between,
  nth_error (run_from log (c :: between ++ [c])) 0 = nth_error (run_from log (c :: between ++ [c])) (S (length between)).
Proof. exact repeated_call_same_answer. Qed.
Print Assumptions C03_repeated_call_same_answer.

(* ---- non-vacuity ---- *)
Open Scope string_scope.
(* below ground, two zooms up on the vertical axis and one zoom down horizontally: floor, not truncation *)
Example C03_nonvacuous_negative : valid (mk 3 1 1 3 (-1)) /\
  change_ext_api ["3/1/1/3/-1"] 3 1 = Ok ["3/1/1/1/-1"] /\ change_ext_api ["3/5/6/3/-8"] 2 4 = Ok ["2/2/3/4/-16"; "2/2/3/4/-15"].
Proof. split; [unfold valid; cbn; lia|]. split; vm_compute; reflexivity. Qed.
(* raising: 4 * 2 descendants; nested and duplicated inputs collapse *)
Example C03_nonvacuous_raise : change_ext_api ["0/0/0/0/-1"] 1 1 =
    Ok ["1/0/0/1/-2"; "1/0/0/1/-1"; "1/1/0/1/-2"; "1/1/0/1/-1"; "1/0/1/1/-2"; "1/0/1/1/-1"; "1/1/1/1/-2"; "1/1/1/1/-1"] /\
  change_ext_api ["2/3/3/2/-4"; "1/1/1/1/-2"; "2/3/3/2/-4"] 1 1 = Ok ["1/1/1/1/-2"].
Proof. split; vm_compute; reflexivity. Qed.
Example C03_nonvacuous_sid : change_sid_api ["2/-3/1/2"] 1 = Ok ["1/-2/0/1"] /\ change_sid_api ["2/-3/1/2"; "x"] 1 = Err /\
  change_sid_api ["2/-3/1/2"] 36 = Err.
Proof. repeat split; vm_compute; reflexivity. Qed.
Example C03_nonvacuous_helpers : hzoom_strs 1 1 0 2 = ["2/2/0"; "2/3/0"; "2/2/1"; "2/3/1"] /\ vzoom_strs 2 (-3) 1 = ["1/-2"] /\
  hzoom_minmax_l 3 5 6 1 = [1; 1; 1; 1]%Z /\ check_change [mk 3 1 1 3 (-1)] 3 1 ["3/1/1/1/0"] = false /\
  check_change [mk 3 1 1 3 (-1)] 3 1 ["3/1/1/1/-1"] = true.
Proof. repeat split; vm_compute; reflexivity. Qed.


(* a history: same vertical index and same zoom difference at two absolute zooms, then the first call again, started after an unrelated past *)
Example C03_nonvacuous_history :
  run_from [CallMinMax 1 0 1 1] [CallVertical 5 (-3) 7; CallVertical 6 (-3) 8; CallExt ["34/5/5/34/-2"] 36 34; CallVertical 5 (-3) 7] =
  [AnsIds (Ok ["7/-12"; "7/-11"; "7/-10"; "7/-9"]); AnsIds (Ok ["8/-12"; "8/-11"; "8/-10"; "8/-9"]); AnsIds Err;
   AnsIds (Ok ["7/-12"; "7/-11"; "7/-10"; "7/-9"])].
Proof. vm_compute. reflexivity. Qed.

(* ---- tie to the source by regeneration (DESIGN.md 4.2): the per-axis kernels of integrate/change_zoom.go and shape.CheckZoom, translated
   from /repo's current source on every run (generated/Generated.v), are the models the theorems above are stated on ---- *)
From SIDGen Require Generated.
From SID Require GenEqZoom GenEqCheck.
Theorem C03_generated_HorizontalZoomMinMax_is_the_model : forall zin x y zout,
  Generated.HorizontalZoomMinMax zin x y zout = ZoomCore.hzoom_minmax zin x y zout.
Proof. exact GenEqZoom.gen_HorizontalZoomMinMax_eq. Qed.
Print Assumptions C03_generated_HorizontalZoomMinMax_is_the_model.
Theorem C03_generated_VerticalZoom_bounds_are_the_model : forall zin f zout,
  Generated.VerticalZoom_minmax zin f zout = ZoomCore.vzoom_minmax zin f zout.
Proof. exact GenEqZoom.gen_VerticalZoom_minmax_eq. Qed.
Print Assumptions C03_generated_VerticalZoom_bounds_are_the_model.
Theorem C03_generated_CheckZoom_is_the_model : forall z, Generated.CheckZoom z = Ids.check_zoom z.
Proof. exact GenEqCheck.gen_CheckZoom_eq. Qed.
Print Assumptions C03_generated_CheckZoom_is_the_model.

(* ---- Go's int64 arithmetic made explicit (DESIGN.md 4.2, int64 mode): the same three kernels regenerated with wrap-around, truncating
   division, arithmetic shifts, the saturating int64(math.Pow(2,e)) and panics (generated/Generated64.v; result `Some (v, flag)`,
   flag = no intermediate left the int64 range, None = panic). On zooms 0..35 and |index| <= 2^zoom they neither panic nor wrap and return
   the model's value, so "int64 = Z on the property's domain" is a theorem for these kernels (theories/GenC03.v over GenEq64Zoom);
   the function assembled from them (`change_g64`: int64 CheckZoom, int64 bounds, result loops, cross product, Unique) is the model.
   The result loops, the cross product, Unique, parsing/printing and the wrapper remain hand-written models. ---- *)
From SID Require I64 GenC03.
Theorem C03_int64_HorizontalZoomMinMax_is_model : forall zin x y zout,
  0 <= zin <= 35 -> 0 <= zout <= 35 -> Z.abs x <= 2 ^ zin -> Z.abs y <= 2 ^ zin ->
  Generated64.HorizontalZoomMinMax zin x y zout = Some (ZoomCore.hzoom_minmax zin x y zout, true).
Proof. exact GenC03.int64_HorizontalZoomMinMax_is_model. Qed.
Print Assumptions C03_int64_HorizontalZoomMinMax_is_model.
Theorem C03_int64_VerticalZoom_bounds_is_model : forall zin f zout,
  0 <= zin <= 35 -> 0 <= zout <= 35 -> Z.abs f <= 2 ^ zin ->
  Generated64.VerticalZoom_minmax zin f zout = Some (ZoomCore.vzoom_minmax zin f zout, true).
Proof. exact GenC03.int64_VerticalZoom_minmax_is_model. Qed.
Print Assumptions C03_int64_VerticalZoom_bounds_is_model.
Theorem C03_int64_CheckZoom_is_model : forall z, Generated64.CheckZoom z = Some (Ids.check_zoom z, true).
Proof. exact GenC03.int64_CheckZoom_is_model. Qed.
Print Assumptions C03_int64_CheckZoom_is_model.
(* without any domain: whatever the int64 kernels return with the flag set is the model's value *)
Theorem C03_int64_HorizontalZoomMinMax_exact_is_model : forall zin x y zout r,
  Generated64.HorizontalZoomMinMax zin x y zout = Some (r, true) -> r = ZoomCore.hzoom_minmax zin x y zout.
Proof. exact GenC03.int64_HorizontalZoomMinMax_exact_is_model. Qed.
Print Assumptions C03_int64_HorizontalZoomMinMax_exact_is_model.
Theorem C03_int64_VerticalZoom_bounds_exact_is_model : forall zin f zout r,
  Generated64.VerticalZoom_minmax zin f zout = Some (r, true) -> r = ZoomCore.vzoom_minmax zin f zout.
Proof. exact GenC03.int64_VerticalZoom_minmax_exact_is_model. Qed.
Print Assumptions C03_int64_VerticalZoom_bounds_exact_is_model.
(* the specification of the bounds, stated of the int64 kernels *)
Theorem C03_int64_HorizontalZoomMinMax_spec : forall zin x y zout,
  0 <= zin <= 35 -> 0 <= zout <= 35 -> 0 <= x < 2 ^ zin -> 0 <= y < 2 ^ zin ->
  exists a b c d, Generated64.HorizontalZoomMinMax zin x y zout = Some ((a, b, c, d), true) /\
    (forall ox, a <= ox <= c <-> rel1 zin x zout ox) /\ (forall oy, b <= oy <= d <-> rel1 zin y zout oy).
Proof. exact GenC03.int64_HorizontalZoomMinMax_spec. Qed.
Print Assumptions C03_int64_HorizontalZoomMinMax_spec.
Theorem C03_int64_VerticalZoom_bounds_spec : forall zin f zout,
  0 <= zin <= 35 -> 0 <= zout <= 35 -> - 2 ^ zin <= f < 2 ^ zin ->
  exists lo hi, Generated64.VerticalZoom_minmax zin f zout = Some ((lo, hi), true) /\ forall o, lo <= o <= hi <-> rel1 zin f zout o.
Proof. exact GenC03.int64_VerticalZoom_minmax_spec. Qed.
Print Assumptions C03_int64_VerticalZoom_bounds_spec.
Theorem C03_int64_ancestor_of_minus_one : forall zin zout, 0 <= zout <= zin -> zin <= 35 ->
  Generated64.VerticalZoom_minmax zin (-1) zout = Some ((-1, -1), true).
Proof. exact GenC03.int64_ancestor_of_minus_one. Qed.
Print Assumptions C03_int64_ancestor_of_minus_one.
(* the list-level function over the int64 kernels *)
Theorem C03_int64_single_id_is_model : forall H V i, valid i -> 0 <= H <= 35 -> 0 <= V <= 35 ->
  GenC03.one_g64 H V i = Some (one H V i).
Proof. exact GenC03.one_g64_eq. Qed.
Print Assumptions C03_int64_single_id_is_model.
Theorem C03_int64_list_function_is_model : forall ids H V, (forall i, In i ids -> valid i) -> 0 <= H <= 35 -> 0 <= V <= 35 ->
  GenC03.change_g64 ids H V = Some (Ok (change_eids ids H V)).
Proof. exact GenC03.change_g64_is_model. Qed.
Print Assumptions C03_int64_list_function_is_model.
Theorem C03_int64_exactly_the_intersecting_voxels : forall ids H V, (forall i, In i ids -> valid i) -> 0 <= H <= 35 -> 0 <= V <= 35 ->
  exists l, GenC03.change_g64 ids H V = Some (Ok l) /\ NoDup l /\
    forall o, In o l <-> eh o = H /\ ev o = V /\ exists i, In i ids /\ overlaps i o.
Proof. exact GenC03.change_g64_exact. Qed.
Print Assumptions C03_int64_exactly_the_intersecting_voxels.
Theorem C03_int64_rejects_bad_zoom : forall ids H V, ~ (0 <= H <= 35 /\ 0 <= V <= 35) -> GenC03.change_g64 ids H V = Some Err.
Proof. exact GenC03.change_g64_bad_zoom. Qed.
Print Assumptions C03_int64_rejects_bad_zoom.

(* non-vacuity, by evaluating the generated int64 kernels: below ground; the extreme zoom pairs of the domain; and a witness that the domain
   hypothesis matters — outside it the int64 code wraps (x * 2^35 for x = 2^40 is 0 in int64) and the flag says so *)
Example C03_int64_nonvacuous :
  Generated64.VerticalZoom_minmax 3 (-1) 1 = Some ((-1, -1), true) /\
  Generated64.VerticalZoom_minmax 0 (-1) 35 = Some ((- 2 ^ 35, -1), true) /\
  Generated64.HorizontalZoomMinMax 35 (2 ^ 35 - 1) 0 0 = Some ((0, 0, 0, 0), true) /\
  GenC03.change_g64 [mk 3 1 1 3 (-1)] 3 1 = Some (Ok [mk 3 1 1 1 (-1)]) /\
  Generated64.HorizontalZoomMinMax 0 (2 ^ 40) 0 35 = Some ((0, 0, 2 ^ 35 - 1, 2 ^ 35 - 1), false).
Proof. repeat split; vm_compute; reflexivity. Qed.
