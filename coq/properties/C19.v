(* C19 — All operations may be called concurrently: the library keeps no mutable shared state, so any mix of its exported functions may run on
   any number of goroutines at once, on shared read-only arguments, and each call returns the result it returns when run alone.
   Only statements, `exact` proofs and Print Assumptions live here. Machine, premise and proofs: theories/Conc.v; run-time prediction: theories/DC19.v.

   PARTIAL. Every theorem below is about an abstract machine (threads = deterministic, total step functions over private state, atomic steps, one
   shared store; schedules = arbitrary lists of thread identifiers), not about /repo. Clause by clause:
     "no mutable shared state"      - not a Coq fact: it is the frame hypothesis / `premise`; harness/cmd/vscan prints the list of instructions
                                      that may write shared memory, the generated Premise.v instantiates
                                      C19_noninterference_for_a_scanned_list_partial with that list (type-checks only when it is empty);
     "any mix, any goroutines"      - proved on the machine for every schedule, thread count and step count, under the frame hypothesis;
     "without data races"           - not expressible on a machine with atomic steps; sampled by the race detector (step "race-run") only;
     "same result as when run alone"- proved on the machine (equal private state at equal step count); on the Go side compared by rendering, as a
                                      multiset for the set-valued functions whose order follows map iteration;
     inputs unmodified              - first conjunct of the theorems; on the Go side a byte comparison of the rendered inputs.
   Trusted: the Go memory model (a data-race-free program behaves as some interleaving of its goroutines' steps), the soundness of the scan
   (`scanned`; with an empty list it is exactly the frame condition, see C19_scanned_with_no_site_is_the_frame_condition), the race detector. *)
From Coq Require Import List Arith String.
From SID Require Import Wire Conc DC19.
Import ListNotations.

(* Non-interference, for every schedule: if no step changes the shared store, then whatever the number of threads, whatever each of them runs and
   however their steps are interleaved, (1) the shared store (package-level state, caller-provided arguments) is left unchanged and (2) every thread
   is in exactly the state it reaches when it runs alone for the same number of steps. *)
Theorem C19_every_interleaving_is_the_solo_runs_partial :
  forall (Shared Local : Type) (step : Shared -> Local -> Shared * Local),
    (forall s l, fst (step s l) = s) ->
    forall (sched : list nat) (s : Shared) (ls : nat -> Local) (t : nat),
      fst (run Shared Local step sched s ls) = s /\
      snd (run Shared Local step sched s ls) t = solo Shared Local step (steps_of sched t) s (ls t).
Proof. exact interleaving_is_solo. Qed.
Print Assumptions C19_every_interleaving_is_the_solo_runs_partial.

(* The property as stated, under the premise extracted from the source: `sites` is the list of instructions that may write memory shared between
   calls; `scanned` says that the list is complete and that an instruction outside it leaves the shared store alone (the trusted soundness of the
   scan); `premise sites` is `sites = []`. Then for every schedule parallel = solo, and the inputs are unmodified. *)
Theorem C19_concurrent_calls_do_not_interfere_partial :
  forall (Shared Local : Type) (step : Shared -> Local -> Shared * Local) (at_site : Local -> option site) (sites : list site),
    scanned Shared Local step at_site sites -> premise sites ->
    forall (sched : list nat) (s : Shared) (ls : nat -> Local) (t : nat),
      fst (run Shared Local step sched s ls) = s /\
      snd (run Shared Local step sched s ls) t = solo Shared Local step (steps_of sched t) s (ls t).
Proof. exact noninterference_under_premise. Qed.
Print Assumptions C19_concurrent_calls_do_not_interfere_partial.

(* The same for a list given as data, in the form the generated file instantiates: step "ssa-premise" writes `SharedState.v` (the list
   `shared_sites` printed by the scan of the tree under analysis) and compiles `Premise.v`, whose theorem is this one applied to `shared_sites`
   with `eq_refl : premiseb shared_sites = true` (type-checks only when the scan reported nothing). *)
Theorem C19_noninterference_for_a_scanned_list_partial :
  forall sites : list site, premiseb sites = true ->
  forall (Shared Local : Type) (step : Shared -> Local -> Shared * Local) (at_site : Local -> option site),
    scanned Shared Local step at_site sites ->
    forall (sched : list nat) (s : Shared) (ls : nat -> Local) (t : nat),
      fst (run Shared Local step sched s ls) = s /\
      snd (run Shared Local step sched s ls) t = solo Shared Local step (steps_of sched t) s (ls t).
Proof. exact noninterference_for_scanned_list. Qed.
Print Assumptions C19_noninterference_for_a_scanned_list_partial.

(* What the hypothesis `scanned` is worth: with the empty list it is exactly the frame condition of the first theorem, nothing more (the two
   theorems above are the first one read through the scanner's report); it names what is trusted about the scan, it does not prove it. *)
Theorem C19_scanned_with_no_site_is_the_frame_condition :
  forall (Shared Local : Type) (step : Shared -> Local -> Shared * Local),
    (exists at_site, scanned Shared Local step at_site []) <-> (forall s l, fst (step s l) = s).
Proof. exact scanned_nil_iff_frame. Qed.
Print Assumptions C19_scanned_with_no_site_is_the_frame_condition.

(* A call that returns after n steps when run alone has returned the same result in every schedule that lets it take at least n steps,
   whatever the other goroutines run. *)
Theorem C19_each_call_returns_its_solo_result_partial :
  forall (Shared Local : Type) (step : Shared -> Local -> Shared * Local) (at_site : Local -> option site) (sites : list site),
    scanned Shared Local step at_site sites -> premise sites ->
    forall (sched : list nat) (s : Shared) (ls : nat -> Local) (t n : nat),
      finished Shared Local step s (solo Shared Local step n s (ls t)) -> n <= steps_of sched t ->
      snd (run Shared Local step sched s ls) t = solo Shared Local step n s (ls t).
Proof. exact finished_call_same_result_under_premise. Qed.
Print Assumptions C19_each_call_returns_its_solo_result_partial.

(* A thread's outcome does not depend on which other threads exist or how they are scheduled. *)
Theorem C19_result_independent_of_the_other_goroutines_partial :
  forall (Shared Local : Type) (step : Shared -> Local -> Shared * Local),
    (forall s l, fst (step s l) = s) ->
    forall sched1 sched2 s (ls1 ls2 : nat -> Local) t,
      ls1 t = ls2 t -> steps_of sched1 t = steps_of sched2 t ->
      snd (run Shared Local step sched1 s ls1) t = snd (run Shared Local step sched2 s ls2) t.
Proof. exact independent_of_the_others. Qed.
Print Assumptions C19_result_independent_of_the_other_goroutines_partial.

(* "The result it returns when run alone", on the machine of histories (a process keeps a state between calls; `result_after h a` = the result
   of the call `a` in a process where the calls `h` were made before, from a fresh process): if results are functions of the arguments alone,
   every two histories agree on every call - in particular any process agrees with the fresh one. The harness checks the hypothesis at run
   time by making the same calls alone in their own process and in another order in another process. *)
Theorem C19_results_that_depend_on_arguments_only_are_the_same_in_every_history_partial :
  forall (State Arg Res : Type) (call : State -> Arg -> State * Res) (fresh : State),
    args_only State Arg Res call fresh ->
    forall h1 h2 a, result_after State Arg Res call fresh h1 a = result_after State Arg Res call fresh h2 a.
Proof. exact args_only_gives_history_independence. Qed.
Print Assumptions C19_results_that_depend_on_arguments_only_are_the_same_in_every_history_partial.

(* the comparison with the fresh process is a complete test of that hypothesis *)
Theorem C19_same_as_alone_in_every_history_iff_arguments_only_partial :
  forall (State Arg Res : Type) (call : State -> Arg -> State * Res) (fresh : State),
    (forall h a, result_after State Arg Res call fresh h a = result_after State Arg Res call fresh [] a) <-> args_only State Arg Res call fresh.
Proof. exact same_as_alone_iff_args_only. Qed.
Print Assumptions C19_same_as_alone_in_every_history_iff_arguments_only_partial.

(* a memo table keyed on part of the arguments (key but not row) is history-dependent: whichever call comes first decides the later results *)
Theorem C19_memo_keyed_on_part_of_the_arguments_is_history_dependent :
  exists (State Arg Res : Type) (call : State -> Arg -> State * Res) (fresh : State), ~ history_independent State Arg Res call fresh.
Proof. exact memo_on_part_of_the_arguments_is_history_dependent. Qed.
Print Assumptions C19_memo_keyed_on_part_of_the_arguments_is_history_dependent.

(* The premise cannot be dropped: with a single write site (a memoising call over a shared cache cell) there are a schedule and a thread whose
   result differs from its solo run. *)
Theorem C19_one_write_site_breaks_it :
  exists (Shared Local : Type) (step : Shared -> Local -> Shared * Local) sched s ls t,
    snd (run Shared Local step sched s ls) t <> solo Shared Local step (steps_of sched t) s (ls t).
Proof. exact write_site_breaks_noninterference. Qed.
Print Assumptions C19_one_write_site_breaks_it.

(* What the run-time comparison (entry ParallelMix) is predicted to observe is the theorem itself: on every machine with the frame condition, for
   every schedule and every number k of calls, the flags "call i in the concurrent run = call i alone" are all true and the store is unchanged. *)
Theorem C19_prediction_is_the_theorem :
  forall (Shared Local : Type) (step : Shared -> Local -> Shared * Local),
    (forall s l, fst (step s l) = s) ->
    forall (leqb : Local -> Local -> bool), (forall l, leqb l l = true) ->
    forall sched s ls k,
      predict k = VL [flags_val (equal_flags Shared Local step leqb sched s ls k); VB true; VL []] /\
      fst (run Shared Local step sched s ls) = s.
Proof. exact predict_is_equal_flags. Qed.
Print Assumptions C19_prediction_is_the_theorem.

(* the run-time checker accepts an observation only if it is the predicted one: k flags, all true; inputs unmodified; no offending call *)
Theorem C19_checker_sound : forall k obs, check_mix k obs = true ->
  exists fl bad, obs = VL [fl; VB true; bad] /\ (fl = flags_val (repeat true k) \/ (k = 0 /\ fl = VNil)) /\ is_empty_list bad = true.
Proof. exact check_mix_sound. Qed.
Print Assumptions C19_checker_sound.

(* the checker of the premise decides it *)
Theorem C19_premise_decidable : forall sites, premiseb sites = true <-> premise sites.
Proof. exact premiseb_spec. Qed.
Print Assumptions C19_premise_decidable.

(* non-vacuity: a concrete system with two kinds of calls ("sum" and "count" over a shared read-only list) satisfies `scanned` with an empty site
   list, hence the premise; threads 0 and 1 interleaved by the schedule [0;1;0;0;1;0;1;1] over the store [3;5;7] end with 15 and 3, as alone. *)
Example C19_nonvacuous :
  scanned Example2.Shared Example2.local Example2.step Example2.at_site [] /\ premise (@nil site) /\
  fst (run _ _ Example2.step Example2.sched Example2.store Example2.start) = Example2.store /\
  Example2.acc (snd (run _ _ Example2.step Example2.sched Example2.store Example2.start) 0) = 15 /\
  Example2.acc (snd (run _ _ Example2.step Example2.sched Example2.store Example2.start) 1) = 3 /\
  Example2.acc (solo _ _ Example2.step 4 Example2.store (Example2.start 0)) = 15 /\
  Example2.acc (solo _ _ Example2.step 4 Example2.store (Example2.start 1)) = 3.
Proof. split; [exact Example2.is_scanned | split; [reflexivity | exact Example2.concrete_run]]. Qed.

(* non-vacuity of the history theorems: the memo machine returns 8 for (1,7) alone and 6 after (1,5) *)
Example C19_memo_witness :
  result_after Memo.State Memo.Arg nat Memo.call [] [] (1, 7) = 8 /\ result_after Memo.State Memo.Arg nat Memo.call [] [(1, 5)] (1, 7) = 6.
Proof. exact Memo.history_dependent. Qed.

(* non-vacuity of the refutation: the memoising call returns 1 after another call has run, 0 alone *)
Example C19_cache_witness :
  Cache.res (snd (run _ _ Cache.step [0; 0; 1; 1] 0 Cache.start) 1) = 1 /\ Cache.res (solo _ _ Cache.step 2 0 (Cache.start 1)) = 0.
Proof. exact Cache.schedule_observable. Qed.
